// lib.rs harnesses

// concrete-playback slot: bin/check writes the solver counterexample here as a unit test for native replay
include!("/verif/.build/playback/lib_pb.rs");

// Kani harnesses mounted inside src/zmij_format.rs (child module: sees private items)

// concrete-playback slot: bin/check writes the solver counterexample here as a unit test for native replay
include!("/verif/.build/playback/zmij_format_pb.rs");

// Shared helpers for the Kani harnesses (mounted in src/lib.rs as `crate::verif_common`).
#![allow(dead_code)]

#[path = "/verif/harness/stdlite.rs"]
pub(crate) mod stdlite;

/// N arbitrary ASCII bytes (0x00..=0x7F).
pub(crate) fn any_ascii<const N: usize>() -> [u8; N] {
    let a: [u8; N] = kani::any();
    let mut i = 0;
    while i < N {
        kani::assume(a[i] < 0x80);
        i += 1;
    }
    a
}

/// N arbitrary bytes that form valid UTF-8 (checked with the reference validator).
pub(crate) fn any_utf8<const N: usize>() -> [u8; N] {
    let a: [u8; N] = kani::any();
    kani::assume(stdlite::utf8_check(&a).is_ok());
    a
}

/// View bytes as &str. Harnesses using this on non-constant data should stub
/// `core::str::validations::run_utf8_validation` with `stdlite::run_utf8_validation`.
pub(crate) fn as_str(b: &[u8]) -> &str {
    match core::str::from_utf8(b) {
        Ok(s) => s,
        Err(_) => {
            kani::assume(false);
            ""
        }
    }
}

/// Byte-wise equality without memcmp (keeps unwinding bounds explicit and small).
pub(crate) fn bytes_eq(a: &[u8], b: &[u8]) -> bool {
    if a.len() != b.len() {
        return false;
    }
    let mut i = 0;
    while i < a.len() {
        if a[i] != b[i] {
            return false;
        }
        i += 1;
    }
    true
}

/// ASCII-case-insensitive comparison with a lowercase literal (oracle helper).
pub(crate) fn eq_ci(a: &[u8], lit: &[u8]) -> bool {
    if a.len() != lit.len() {
        return false;
    }
    let mut i = 0;
    while i < a.len() {
        let c = if a[i] >= b'A' && a[i] <= b'Z' { a[i] + 32 } else { a[i] };
        if c != lit[i] {
            return false;
        }
        i += 1;
    }
    true
}

// Shared helpers for the Kani harnesses (mounted in src/lib.rs as `crate::verif_common`).
#![allow(dead_code)]

#[path = "/verif/harness/stdlite.rs"]
pub(crate) mod stdlite;
#[path = "/verif/harness/numlook.rs"]
pub(crate) mod numlook;

// ---------------------------------------------------------------------------------------------
// End-to-end confirmation for serializer oracles.
//
// The serializer harnesses compare the emitter with a *reference reader* written in the harness.
// Such an oracle could be stricter than the real parser; to make a false alarm impossible every
// oracle failure is conjoined with `e2e_*_mismatch(..)`:
//   * under Kani the function is stubbed to `true` (#[kani::stub(e2e_.., e2e_true_..)]), so the
//     solver decides the oracle alone;
//   * in the native replay of the counterexample stubs are not applied: the real
//     `to_string` -> `from_str` round trip runs and the assertion only fails if the real crate
//     really reads back something else.
// ---------------------------------------------------------------------------------------------

/// position: 0 root, 1 block sequence item, 2 block mapping value, 3 block mapping key,
/// 4 flow sequence item, 5 flow mapping value
pub(crate) fn e2e_string_mismatch(s: &str, position: u8, quote_all: bool, yaml_12: bool) -> bool {
    use std::collections::BTreeMap;
    let mut opts = crate::SerializerOptions::default();
    opts.quote_all = quote_all;
    opts.yaml_12 = yaml_12;
    let owned = s.to_string();
    match position {
        0 => {
            let y = match crate::to_string_with_options(&owned, opts) {
                Ok(y) => y,
                Err(_) => return true,
            };
            !matches!(crate::from_str::<String>(&y), Ok(b) if b == owned)
        }
        1 => {
            let v = vec![owned.clone(), owned];
            let y = match crate::to_string_with_options(&v, opts) {
                Ok(y) => y,
                Err(_) => return true,
            };
            !matches!(crate::from_str::<Vec<String>>(&y), Ok(b) if b == v)
        }
        2 => {
            let mut m = BTreeMap::new();
            m.insert("k".to_string(), owned);
            let y = match crate::to_string_with_options(&m, opts) {
                Ok(y) => y,
                Err(_) => return true,
            };
            !matches!(crate::from_str::<BTreeMap<String, String>>(&y), Ok(b) if b == m)
        }
        3 => {
            let mut m = BTreeMap::new();
            m.insert(owned, "v".to_string());
            let y = match crate::to_string_with_options(&m, opts) {
                Ok(y) => y,
                Err(_) => return true,
            };
            !matches!(crate::from_str::<BTreeMap<String, String>>(&y), Ok(b) if b == m)
        }
        4 => {
            let v = crate::FlowSeq(vec![owned.clone(), owned]);
            let y = match crate::to_string_with_options(&v, opts) {
                Ok(y) => y,
                Err(_) => return true,
            };
            !matches!(crate::from_str::<Vec<String>>(&y), Ok(b) if b == v.0)
        }
        _ => {
            let mut m = BTreeMap::new();
            m.insert("k".to_string(), owned);
            let w = crate::FlowMap(m);
            let y = match crate::to_string_with_options(&w, opts) {
                Ok(y) => y,
                Err(_) => return true,
            };
            !matches!(crate::from_str::<BTreeMap<String, String>>(&y), Ok(b) if b == w.0)
        }
    }
}

pub(crate) fn e2e_true_string(_s: &str, _position: u8, _quote_all: bool, _yaml_12: bool) -> bool {
    true
}

/// What an untyped reader (`deserialize_any`) takes a node for.
#[derive(Debug, PartialEq, Eq, PartialOrd, Ord)]
pub(crate) enum Untyped {
    Null,
    Bool,
    Int,
    Float,
    Str(String),
    Other,
}

impl<'de> serde::Deserialize<'de> for Untyped {
    fn deserialize<D: serde::Deserializer<'de>>(d: D) -> Result<Self, D::Error> {
        struct V;
        impl<'de> serde::de::Visitor<'de> for V {
            type Value = Untyped;
            fn expecting(&self, f: &mut std::fmt::Formatter) -> std::fmt::Result {
                f.write_str("any scalar")
            }
            fn visit_bool<E>(self, _v: bool) -> Result<Untyped, E> {
                Ok(Untyped::Bool)
            }
            fn visit_i64<E>(self, _v: i64) -> Result<Untyped, E> {
                Ok(Untyped::Int)
            }
            fn visit_u64<E>(self, _v: u64) -> Result<Untyped, E> {
                Ok(Untyped::Int)
            }
            fn visit_i128<E>(self, _v: i128) -> Result<Untyped, E> {
                Ok(Untyped::Int)
            }
            fn visit_u128<E>(self, _v: u128) -> Result<Untyped, E> {
                Ok(Untyped::Int)
            }
            fn visit_f64<E>(self, _v: f64) -> Result<Untyped, E> {
                Ok(Untyped::Float)
            }
            fn visit_str<E>(self, v: &str) -> Result<Untyped, E> {
                Ok(Untyped::Str(v.to_string()))
            }
            fn visit_string<E>(self, v: String) -> Result<Untyped, E> {
                Ok(Untyped::Str(v))
            }
            fn visit_unit<E>(self) -> Result<Untyped, E> {
                Ok(Untyped::Null)
            }
            fn visit_none<E>(self) -> Result<Untyped, E> {
                Ok(Untyped::Null)
            }
            fn visit_seq<A: serde::de::SeqAccess<'de>>(self, mut a: A) -> Result<Untyped, A::Error> {
                while let Some(_x) = a.next_element::<Untyped>()? {}
                Ok(Untyped::Other)
            }
            fn visit_map<A: serde::de::MapAccess<'de>>(self, mut a: A) -> Result<Untyped, A::Error> {
                while let Some((_k, _v)) = a.next_entry::<Untyped, Untyped>()? {}
                Ok(Untyped::Other)
            }
        }
        d.deserialize_any(V)
    }
}

/// Like `e2e_string_mismatch`, but read back through an UNTYPED target: true if the emitted
/// string does not come back as a string with the same text (e.g. as null, a bool or a number).
/// position: 0 root, 2 block mapping value, 3 block mapping key
pub(crate) fn e2e_untyped_mismatch(s: &str, position: u8, yaml_12: bool) -> bool {
    use std::collections::BTreeMap;
    let mut opts = crate::SerializerOptions::default();
    opts.yaml_12 = yaml_12;
    let owned = s.to_string();
    let want = Untyped::Str(owned.clone());
    match position {
        0 => {
            let y = match crate::to_string_with_options(&owned, opts) {
                Ok(y) => y,
                Err(_) => return true,
            };
            !matches!(crate::from_str::<Untyped>(&y), Ok(b) if b == want)
        }
        2 => {
            let mut m = BTreeMap::new();
            m.insert("k".to_string(), owned);
            let y = match crate::to_string_with_options(&m, opts) {
                Ok(y) => y,
                Err(_) => return true,
            };
            !matches!(crate::from_str::<BTreeMap<String, Untyped>>(&y), Ok(b) if b.get("k") == Some(&want))
        }
        _ => {
            let mut m = BTreeMap::new();
            m.insert(owned, "v".to_string());
            let y = match crate::to_string_with_options(&m, opts) {
                Ok(y) => y,
                Err(_) => return true,
            };
            !matches!(crate::from_str::<BTreeMap<Untyped, String>>(&y), Ok(b) if b.len() == 1 && b.contains_key(&want))
        }
    }
}

pub(crate) fn e2e_true_untyped(_s: &str, _position: u8, _yaml_12: bool) -> bool {
    true
}

/// N arbitrary ASCII bytes (0x00..=0x7F).
pub(crate) fn any_ascii<const N: usize>() -> [u8; N] {
    let a: [u8; N] = kani::any();
    let mut i = 0;
    while i < N {
        kani::assume(a[i] < 0x80);
        i += 1;
    }
    a
}

/// N arbitrary bytes that form valid UTF-8 (checked with the reference validator).
pub(crate) fn any_utf8<const N: usize>() -> [u8; N] {
    let a: [u8; N] = kani::any();
    kani::assume(stdlite::utf8_check(&a).is_ok());
    a
}

/// View bytes as &str. Harnesses using this on non-constant data should stub
/// `core::str::validations::run_utf8_validation` with `stdlite::run_utf8_validation`.
pub(crate) fn as_str(b: &[u8]) -> &str {
    match core::str::from_utf8(b) {
        Ok(s) => s,
        Err(_) => {
            kani::assume(false);
            ""
        }
    }
}

/// Byte-wise equality without memcmp (keeps unwinding bounds explicit and small).
pub(crate) fn bytes_eq(a: &[u8], b: &[u8]) -> bool {
    if a.len() != b.len() {
        return false;
    }
    let mut i = 0;
    while i < a.len() {
        if a[i] != b[i] {
            return false;
        }
        i += 1;
    }
    true
}

/// ASCII-case-insensitive comparison with a lowercase literal (oracle helper).
pub(crate) fn eq_ci(a: &[u8], lit: &[u8]) -> bool {
    if a.len() != lit.len() {
        return false;
    }
    let mut i = 0;
    while i < a.len() {
        let c = if a[i] >= b'A' && a[i] <= b'Z' { a[i] + 32 } else { a[i] };
        if c != lit[i] {
            return false;
        }
        i += 1;
    }
    true
}


// ------------------------------------------------------------------------------------------
// C04 (a): the identity of a scalar key is its text and tag - never its quoting style.
// ------------------------------------------------------------------------------------------
fn any_style() -> ScalarStyle {
    let k: u8 = kani::any();
    match k % 5 {
        0 => ScalarStyle::Plain,
        1 => ScalarStyle::SingleQuoted,
        2 => ScalarStyle::DoubleQuoted,
        3 => ScalarStyle::Literal,
        _ => ScalarStyle::Folded,
    }
}

fn any_key_tag() -> SfTag {
    let k: u8 = kani::any();
    match k % 3 {
        0 => SfTag::None,
        1 => SfTag::String,
        _ => SfTag::Int,
    }
}

fn scalar_key(text: &'static str, tag: SfTag, style: ScalarStyle) -> KeyNode<'static> {
    KeyNode::Scalar {
        events: vec![Ev::Scalar {
            value: Cow::Borrowed(text),
            tag,
            raw_tag: None,
            style,
            anchor: kani::any(),
            location: loc0(),
        }],
        location: loc0(),
    }
}

#[kani::proof]
#[kani::unwind(6)]
fn c04_scalar_key_identity() {
    let (t1, t2) = (any_key_tag(), any_key_tag());
    let same_text: bool = kani::any();
    let a = scalar_key("k", t1, any_style());
    let b = scalar_key(if same_text { "k" } else { "j" }, t2, any_style());
    let fa = a.fingerprint().into_owned();
    let fb = b.fingerprint().into_owned();
    let equal = fa == fb;
    assert!(equal == (same_text && t1 == t2), "key identity is not exactly (scalar text, tag): quoting style or anchor leaked in, or text/tag ignored");
    kani::cover!(equal, "repeated key recognised");
    kani::cover!(!equal, "distinct keys kept apart");
    std::mem::forget(fa);
    std::mem::forget(fb);
    std::mem::forget(a);
    std::mem::forget(b);
}

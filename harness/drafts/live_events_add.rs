// C16: while an alias is being replayed the use-site location is the alias token's, whatever the
// replay position; without a replay it is the lookahead event's (or the last) location.
use super::*;

fn lloc(n: u32) -> Location {
    Location {
        line: n,
        column: n,
        span: crate::location::Span::UNKNOWN,
    }
}

#[kani::proof]
#[kani::unwind(4)]
fn c16_reference_location_during_replay() {
    let mut le = LiveEvents {
        parser: SaphyrParser::Scripted(None),
        input: None,
        produced_any_in_doc: true,
        synthesized_null_emitted: false,
        look: None,
        inject: Vec::new(),
        anchors: Vec::new(),
        rec_stack: Vec::new(),
        budget: None,
        budget_report: None,
        budget_report_cb: None,
        last_location: lloc(3),
        alias_limits: AliasLimits {
            max_total_replayed_events: kani::any(),
            max_replay_stack_depth: kani::any(),
            max_alias_expansions_per_anchor: kani::any(),
        },
        total_replayed_events: kani::any(),
        per_anchor_expansions: Vec::new(),
        stop_at_doc_end: kani::any(),
        seen_doc_end: kani::any(),
        error: Rc::new(RefCell::new(None)),
    };
    let replaying: bool = kani::any();
    let idx: usize = kani::any();
    let line: u32 = kani::any();
    kani::assume(line != 0);
    if replaying {
        le.inject.push(InjectFrame {
            anchor_id: kani::any(),
            idx,
            reference_location: lloc(line),
        });
    }
    let has_look: bool = kani::any();
    if has_look {
        le.look = Some(Ev::SeqEnd { location: lloc(7) });
    }
    let r = crate::de::Events::reference_location(&le);
    if replaying {
        assert!(r == lloc(line), "use-site location of the alias lost at some replay position");
        kani::cover!(idx > 1, "deep inside the replayed node");
    } else if has_look {
        assert!(r == lloc(7));
    } else {
        assert!(r == lloc(3));
    }
    std::mem::forget(le);
}

// Kani harnesses mounted inside src/de_error.rs (child module: sees private items).
//
// C16: a scanner error is located by the parser's mark: 1-based column, CHARACTER offset (not the
// byte offset, which differs after any multi-byte character), length 1.
use super::*;
use saphyr_parser::{Marker, ScanError};

#[kani::proof]
#[kani::unwind(20)]
#[kani::stub(core::str::pattern::simd_contains, crate::verif_common::stdlite::simd_contains)]
fn c16_scan_error_location() {
    let (i, l, c): (usize, usize, usize) = (kani::any(), kani::any(), kani::any());
    const LIM: usize = u32::MAX as usize;
    kani::assume(i < LIM && l < LIM && c < LIM);
    let b: Option<usize> = kani::any();
    if let Some(bo) = b {
        kani::assume(bo >= i); // byte offset never precedes the character index
    }
    let err = ScanError::new_str(Marker::new(i, l, c).with_byte_offset(b), "x");
    let e = Error::from_scan_error(err);
    match &e {
        Error::ExternalMessage { location, .. } => {
            assert!(location.line() == l as u64, "line differs from the parser's mark");
            assert!(location.column() == c as u64 + 1, "column is not the 1-based mark column");
            assert!(location.span().offset() == i as u64, "character offset differs from the mark's character index");
            assert!(location.span().len() == 1);
            kani::cover!(matches!(b, Some(bo) if bo > i), "multi-byte characters before the error");
        }
        _ => assert!(false, "scanner error not converted to an external message"),
    }
    std::mem::forget(e);
}

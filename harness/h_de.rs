// Kani harnesses mounted inside src/de.rs (child module: sees private items).
//
// C04 (skipping exactly one node), C03 (what counts as a merge key), parts of C01 (residual panic
// sites stay unreachable) at the level of the event-buffer kernels.
use super::*;

fn loc0() -> Location {
    Location::UNKNOWN
}

/// Event of symbolic kind with unallocated (borrowed, empty) payloads.
/// 0 scalar, 1 seq start, 2 seq end, 3 map start, 4 map end, 5 taken
fn ev_of(kind: u8) -> Ev<'static> {
    match kind {
        0 => Ev::Scalar {
            value: Cow::Borrowed(""),
            tag: SfTag::None,
            raw_tag: None,
            style: ScalarStyle::Plain,
            anchor: 0,
            location: loc0(),
        },
        1 => Ev::SeqStart {
            anchor: 0,
            tag: SfTag::None,
            raw_tag: None,
            location: loc0(),
        },
        2 => Ev::SeqEnd { location: loc0() },
        3 => Ev::MapStart {
            anchor: 0,
            location: loc0(),
        },
        4 => Ev::MapEnd { location: loc0() },
        _ => Ev::Taken { location: loc0() },
    }
}

/// Reference: length of the well-formed node starting at `i` (strict: a sequence is closed by a
/// sequence end, a mapping by a mapping end), None if there is no well-formed node there.
fn ref_node_len<const N: usize>(k: &[u8; N], i: usize) -> Option<usize> {
    if i >= N {
        return None;
    }
    match k[i] {
        0 => Some(1),
        1 | 3 => {
            // explicit stack of open container kinds (N <= 8)
            let mut stack = [0u8; N];
            let mut sp = 0usize;
            let mut j = i;
            while j < N {
                match k[j] {
                    0 => {}
                    1 | 3 => {
                        stack[sp] = k[j];
                        sp += 1;
                    }
                    2 | 4 => {
                        if sp == 0 {
                            return None;
                        }
                        let open = stack[sp - 1];
                        if (open == 1) != (k[j] == 2) {
                            return None;
                        }
                        sp -= 1;
                        if sp == 0 {
                            return Some(j - i + 1);
                        }
                    }
                    _ => return None,
                }
                j += 1;
            }
            None
        }
        _ => None,
    }
}

fn skip_len_n<const N: usize>() {
    let kinds: [u8; N] = kani::any();
    let mut i = 0;
    while i < N {
        kani::assume(kinds[i] <= 5);
        i += 1;
    }
    let evs: [Ev<'static>; N] = core::array::from_fn(|j| ev_of(kinds[j]));
    let start: usize = kani::any();
    kani::assume(start <= N);
    let got = skip_one_node_len(&evs, start);
    let want = ref_node_len(&kinds, start);
    if let Some(w) = want {
        assert!(got == Some(w), "a well-formed node was not skipped exactly");
        kani::cover!(w >= 4, "nested node skipped");
    }
    if let Some(g) = got {
        assert!(g >= 1 && start + g <= N, "skip length leaves the buffer");
        // whatever was skipped starts with a node-opening event and ends with a closing one
        assert!(kinds[start] == 0 || kinds[start + g - 1] == 2 || kinds[start + g - 1] == 4);
    }
    kani::cover!(want.is_none() && got.is_none(), "malformed buffer rejected");
    std::mem::forget(evs);
}

#[kani::proof]
#[kani::unwind(8)]
fn c04_skip_len_6() {
    skip_len_n::<6>()
}

#[kani::proof]
#[kani::unwind(10)]
fn c04_skip_len_8() {
    skip_len_n::<8>()
}


// ------------------------------------------------------------------------------------------
// C04 (a): the identity of a scalar key is its text and tag - never its quoting style.
// ------------------------------------------------------------------------------------------
fn any_style() -> ScalarStyle {
    let k: u8 = kani::any();
    match k % 5 {
        0 => ScalarStyle::Plain,
        1 => ScalarStyle::SingleQuoted,
        2 => ScalarStyle::DoubleQuoted,
        3 => ScalarStyle::Literal,
        _ => ScalarStyle::Folded,
    }
}

fn any_key_tag() -> SfTag {
    let k: u8 = kani::any();
    match k % 3 {
        0 => SfTag::None,
        1 => SfTag::String,
        _ => SfTag::Int,
    }
}

/// Equality of two scalar fingerprints, field by field (what the derived `PartialEq` does for the
/// `Scalar` variant; written out to keep the recursive variants out of the encoding).
fn fp_scalar_eq(a: &KeyFingerprint, b: &KeyFingerprint) -> bool {
    match (a, b) {
        (KeyFingerprint::Scalar { value: v1, tag: t1 }, KeyFingerprint::Scalar { value: v2, tag: t2 }) => {
            v1.len() == v2.len() && v1.as_bytes() == v2.as_bytes() && t1 == t2
        }
        _ => false,
    }
}

fn scalar_key(text: &'static str, tag: SfTag, style: ScalarStyle) -> KeyNode<'static> {
    KeyNode::Scalar {
        events: vec![Ev::Scalar {
            value: Cow::Borrowed(text),
            tag,
            raw_tag: None,
            style,
            anchor: kani::any(),
            location: loc0(),
        }],
        location: loc0(),
    }
}

#[kani::proof]
#[kani::unwind(6)]
fn c04_scalar_key_identity() {
    // one key plain and untagged, the other with symbolic quoting style (and symbolic anchor id):
    // the same text is the same key, whatever the style
    let a = scalar_key("k", SfTag::None, ScalarStyle::Plain);
    let b = scalar_key("k", SfTag::None, any_style());
    let fa = a.fingerprint();
    let fb = b.fingerprint();
    assert!(fp_scalar_eq(&fa, &fb), "the same key text written in another quoting style is not recognised as the same key");
    kani::cover!(true, "compared");
    std::mem::forget(fa);
    std::mem::forget(fb);
    std::mem::forget(a);
    std::mem::forget(b);
}

#[kani::proof]
#[kani::unwind(6)]
fn c04_scalar_key_identity_tag() {
    // same style, symbolic tags: equal iff the tags are equal
    let (t1, t2) = (any_key_tag(), any_key_tag());
    let a = scalar_key("k", t1, ScalarStyle::Plain);
    let b = scalar_key("k", t2, ScalarStyle::Plain);
    let fa = a.fingerprint();
    let fb = b.fingerprint();
    assert!(fp_scalar_eq(&fa, &fb) == (t1 == t2), "key identity ignores or invents a tag difference");
    kani::cover!(t1 == t2, "same tag");
    std::mem::forget(fa);
    std::mem::forget(fb);
    std::mem::forget(a);
    std::mem::forget(b);
}

// concrete-playback slot: bin/check writes the solver counterexample here as a unit test for native replay
include!("/verif/.build/playback/de_pb.rs");

// Kani harnesses mounted inside src/ser_quoting.rs (child module: sees private items).
//
// C12: a string is emitted plain only if the plain form reads back as the identical string (not
// as null / bool / number / merge key / document marker, and without losing characters).
//
// Oracle: a list of *necessary* conditions for a single-line plain scalar to read back verbatim
// (YAML 1.2 plain-scalar productions + the deserializer's own null/bool/number tables). The
// predicates may be stricter than the oracle (quoting is always safe), never laxer. Every oracle
// failure is conjoined with an end-to-end confirmation (see verif_common::e2e_string_mismatch), so
// an over-strict oracle cannot raise an alarm.
use super::*;
use crate::verif_common::numlook;
use crate::verif_common::stdlite;
use crate::verif_common::{any_utf8, as_str, e2e_string_mismatch, e2e_true_string, e2e_true_untyped, e2e_untyped_mismatch, eq_ci};

fn is_indicator_start(c: u8) -> bool {
    matches!(
        c,
        b',' | b'[' | b']' | b'{' | b'}' | b'#' | b'&' | b'*' | b'!' | b'|' | b'>' | b'\'' | b'"' | b'%' | b'@' | b'`'
    )
}

fn has_control(b: &[u8]) -> bool {
    let mut i = 0;
    while i < b.len() {
        let x = b[i];
        if x < 0x20 || x == 0x7F {
            return true;
        }
        if x == 0xC2 && i + 1 < b.len() && b[i + 1] >= 0x80 && b[i + 1] <= 0x9F {
            return true;
        }
        i += 1;
    }
    false
}

fn has_sub2(b: &[u8], x: u8, y: u8) -> bool {
    let mut i = 0;
    while i + 1 < b.len() {
        if b[i] == x && b[i + 1] == y {
            return true;
        }
        i += 1;
    }
    false
}

fn has_byte(b: &[u8], x: u8) -> bool {
    let mut i = 0;
    while i < b.len() {
        if b[i] == x {
            return true;
        }
        i += 1;
    }
    false
}

fn is_digit(c: u8) -> bool {
    c >= b'0' && c <= b'9'
}

/// Reference: does the deserializer (or Rust's float syntax it delegates to) read this plain token
/// as an integer or a float? Grammar: [+-]? ( 0x hex+ | 0o oct+ | 0b bin+ | dec (with _) |
/// digits* '.' digits* exp? | digits+ exp ) | [+-]?(inf|nan|infinity) | [+-]?.inf | [+-.]nan forms
fn ref_number(b: &[u8]) -> bool {
    let mut i = 0;
    if i < b.len() && (b[i] == b'+' || b[i] == b'-') {
        i += 1;
    }
    let r = &b[i..];
    if r.is_empty() {
        return false;
    }
    if eq_ci(r, b"inf") || eq_ci(r, b"nan") || eq_ci(r, b".inf") || eq_ci(r, b".nan") || eq_ci(r, b"infinity") {
        return true;
    }
    // radix integers (either case of the prefix letter is accepted by the deserializer)
    if r.len() >= 3 && r[0] == b'0' {
        let p = r[1] | 0x20;
        if p == b'x' || p == b'o' || p == b'b' {
            let mut saw = false;
            let mut ok = true;
            let mut j = 2;
            while j < r.len() {
                let c = r[j];
                let good = if c == b'_' {
                    true
                } else if p == b'x' {
                    saw = true;
                    is_digit(c) || ((c | 0x20) >= b'a' && (c | 0x20) <= b'f')
                } else if p == b'o' {
                    saw = true;
                    c >= b'0' && c <= b'7'
                } else {
                    saw = true;
                    c == b'0' || c == b'1'
                };
                if !good {
                    ok = false;
                }
                j += 1;
            }
            if ok && saw {
                return true;
            }
        }
    }
    // decimal integer with separators
    {
        let mut saw = false;
        let mut ok = true;
        let mut j = 0;
        while j < r.len() {
            if is_digit(r[j]) {
                saw = true;
            } else if r[j] != b'_' {
                ok = false;
            }
            j += 1;
        }
        if ok && saw {
            return true;
        }
    }
    // Rust float: digits* [. digits*] [e [+-] digits+], at least one mantissa digit
    let mut j = 0;
    let mut mant = 0;
    while j < r.len() && is_digit(r[j]) {
        j += 1;
        mant += 1;
    }
    if j < r.len() && r[j] == b'.' {
        j += 1;
        while j < r.len() && is_digit(r[j]) {
            j += 1;
            mant += 1;
        }
    }
    if mant == 0 {
        return false;
    }
    if j < r.len() && (r[j] == b'e' || r[j] == b'E') {
        j += 1;
        if j < r.len() && (r[j] == b'+' || r[j] == b'-') {
            j += 1;
        }
        let mut ed = 0;
        while j < r.len() && is_digit(r[j]) {
            j += 1;
            ed += 1;
        }
        if ed == 0 {
            return false;
        }
    }
    j == r.len()
}

/// Necessary conditions for `b` to read back verbatim as a string when written plain.
fn plain_reads_back(b: &[u8], key: bool, in_flow: bool, yaml_12: bool) -> bool {
    let n = b.len();
    if n == 0 {
        return false; // empty plain scalar is null
    }
    // leading / trailing blanks are not part of a plain scalar
    if b[0] == b' ' || b[n - 1] == b' ' {
        return false;
    }
    if has_control(b) {
        return false; // tabs, line breaks, NEL, C0/C1: folded, stripped or rejected by the reader
    }
    // a byte order mark at the very start is consumed by the reader
    if n >= 3 && b[0] == 0xEF && b[1] == 0xBB && b[2] == 0xBF {
        return false;
    }
    if is_indicator_start(b[0]) {
        return false;
    }
    if b[0] == b'-' || b[0] == b'?' || b[0] == b':' {
        if n == 1 || b[1] == b' ' {
            return false;
        }
    }
    // ": " ends a key, " #" starts a comment, a trailing ':' is a key indicator
    if has_sub2(b, b':', b' ') || has_sub2(b, b' ', b'#') || b[n - 1] == b':' {
        return false;
    }
    if in_flow && (has_byte(b, b',') || has_byte(b, b'[') || has_byte(b, b']') || has_byte(b, b'{') || has_byte(b, b'}')) {
        return false;
    }
    // the deserializer's own tables
    if (n == 1 && b[0] == b'~') || eq_ci(b, b"null") || eq_ci(b, b"true") || eq_ci(b, b"false") {
        return false;
    }
    if !yaml_12 && !key {
        if eq_ci(b, b"yes") || eq_ci(b, b"no") || eq_ci(b, b"y") || eq_ci(b, b"n") || eq_ci(b, b"on") || eq_ci(b, b"off") {
            return false;
        }
    }
    if ref_number(b) {
        return false;
    }
    // merge key and document markers
    if key && n == 2 && b[0] == b'<' && b[1] == b'<' {
        return false;
    }
    if n >= 3 && ((b[0] == b'-' && b[1] == b'-' && b[2] == b'-') || (b[0] == b'.' && b[1] == b'.' && b[2] == b'.')) {
        if n == 3 || b[3] == b' ' {
            return false;
        }
    }
    true
}

fn key_plain_n<const N: usize>() {
    let a: [u8; N] = any_utf8::<N>();
    let s = as_str(&a);
    if is_plain_safe(s) {
        let ok = plain_reads_back(&a, true, false, false);
        assert!(
            ok || !(e2e_string_mismatch(s, 3, false, false) || e2e_untyped_mismatch(s, 3, false)),
            "a mapping key is emitted plain although the plain form does not read back as the same string"
        );
        kani::cover!(true, "some key is plain-safe");
    }
}

fn value_plain_n<const N: usize>() {
    let a: [u8; N] = any_utf8::<N>();
    let s = as_str(&a);
    let yaml_12: bool = kani::any();
    let in_flow: bool = kani::any();
    if is_plain_value_safe(s, yaml_12, in_flow) {
        let ok = plain_reads_back(&a, false, in_flow, yaml_12);
        let confirmed = if in_flow {
            e2e_string_mismatch(s, 4, false, yaml_12) || e2e_string_mismatch(s, 5, false, yaml_12)
        } else {
            e2e_string_mismatch(s, 0, false, yaml_12)
                || e2e_string_mismatch(s, 1, false, yaml_12)
                || e2e_string_mismatch(s, 2, false, yaml_12)
                || e2e_untyped_mismatch(s, 0, yaml_12)
                || e2e_untyped_mismatch(s, 2, yaml_12)
        };
        assert!(
            ok || !confirmed,
            "a string value is emitted plain although the plain form does not read back as the same string"
        );
        kani::cover!(in_flow, "plain in flow context");
        kani::cover!(!in_flow && yaml_12, "plain in block context, YAML 1.2 mode");
    }
}

/// Word-like tokens (ASCII letters, '~', '.', '+', '-'): look-alikes of null / booleans / special
/// floats in every letter case, at lengths the all-UTF-8 harnesses do not reach.
fn wordlike_n<const N: usize>() {
    let a: [u8; N] = kani::any();
    let mut i = 0;
    while i < N {
        let c = a[i];
        let ok = (c >= b'a' && c <= b'z') || (c >= b'A' && c <= b'Z') || c == b'~' || c == b'.' || c == b'+' || c == b'-';
        kani::assume(ok);
        i += 1;
    }
    let s = as_str(&a);
    let yaml_12: bool = kani::any();
    // value position first: a failing assertion ends the path, and mis-quoting in value position is
    // the one an untyped / Option reader observes (keys are read as strings by most targets)
    if is_plain_value_safe(s, yaml_12, false) {
        let ok = plain_reads_back(&a, false, false, yaml_12);
        let confirmed = e2e_string_mismatch(s, 0, false, yaml_12)
            || e2e_string_mismatch(s, 2, false, yaml_12)
            || e2e_untyped_mismatch(s, 0, yaml_12)
            || e2e_untyped_mismatch(s, 2, yaml_12);
        assert!(ok || !confirmed, "a word-like value is emitted plain although it reads back as something else");
        kani::cover!(true, "some word is plain-safe");
    } else {
        kani::cover!(true, "some word must be quoted");
    }
    if is_plain_safe(s) {
        let ok = plain_reads_back(&a, true, false, false);
        assert!(ok || !(e2e_string_mismatch(s, 3, false, false) || e2e_untyped_mismatch(s, 3, false)), "a word-like key is emitted plain although it reads back as something else");
    }
}

macro_rules! quoting_harness {
    ($name:ident, $f:ident, $n:expr, $unwind:expr) => {
        #[kani::proof]
        #[kani::unwind($unwind)]
        #[kani::stub(core::str::validations::run_utf8_validation, stdlite::run_utf8_validation)]
        #[kani::stub(core::str::pattern::simd_contains, stdlite::simd_contains)]
        #[kani::stub(alloc::fmt::format, stdlite::format_stub)]
        #[kani::stub(is_numeric_looking, numlook::numeric_looking)]
        #[kani::stub(str::trim, stdlite::trim_exact)]
        #[kani::stub(e2e_string_mismatch, e2e_true_string)]
        #[kani::stub(e2e_untyped_mismatch, e2e_true_untyped)]
        fn $name() {
            $f::<$n>()
        }
    };
}

quoting_harness!(c12_key_plain_1, key_plain_n, 1, 9);
quoting_harness!(c12_key_plain_2, key_plain_n, 2, 9);
quoting_harness!(c12_key_plain_3, key_plain_n, 3, 9);
quoting_harness!(c12_key_plain_4, key_plain_n, 4, 10);
quoting_harness!(c12_value_plain_1, value_plain_n, 1, 9);
quoting_harness!(c12_value_plain_2, value_plain_n, 2, 9);
quoting_harness!(c12_value_plain_3, value_plain_n, 3, 9);
quoting_harness!(c12_value_plain_4, value_plain_n, 4, 10);
quoting_harness!(c12_wordlike_4, wordlike_n, 4, 10);
quoting_harness!(c12_wordlike_5, wordlike_n, 5, 11);

// concrete-playback slot: bin/check writes the solver counterexample here as a unit test for native replay
include!("/verif/.build/playback/ser_quoting_pb.rs");

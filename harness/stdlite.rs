// std-lite: naive byte-loop replacements for libcore / liballoc string primitives.
//
// Why: libcore's versions are written for speed (word-at-a-time loops behind `align_offset`,
// SSE2 substring search). Kani models `align_offset` nondeterministically and CBMC then
// explodes (DESIGN.md §2 R1). These replacements are installed with `#[kani::stub(..)]` by the
// harnesses that need them and are part of the trusted base of those harnesses.
//
// This file is plain Rust (no `kani::` items) so that /verif/stdlite_test can include it with
// `#[path]` and compare every function with the real std function natively (translator
// validation; run by MANIFEST.setup_cmd and by `bin/check --selftest`).
#![allow(dead_code)]

use core::str::Utf8Error;

/// Reference UTF-8 validator. Returns Ok(()) or (valid_up_to, error_len) with exactly the
/// semantics of `core::str::from_utf8` (error_len None = truncated at end of input).
pub fn utf8_check(v: &[u8]) -> Result<(), (usize, Option<u8>)> {
    let n = v.len();
    let mut i = 0usize;
    while i < n {
        let b0 = v[i];
        if b0 < 0x80 {
            i += 1;
            continue;
        }
        let width: usize = if b0 >= 0xC2 && b0 <= 0xDF {
            2
        } else if b0 >= 0xE0 && b0 <= 0xEF {
            3
        } else if b0 >= 0xF0 && b0 <= 0xF4 {
            4
        } else {
            return Err((i, Some(1)));
        };
        // second byte
        if i + 1 >= n {
            return Err((i, None));
        }
        let b1 = v[i + 1];
        let ok1 = match (width, b0) {
            (2, _) => b1 >= 0x80 && b1 <= 0xBF,
            (3, 0xE0) => b1 >= 0xA0 && b1 <= 0xBF,
            (3, 0xED) => b1 >= 0x80 && b1 <= 0x9F,
            (3, _) => b1 >= 0x80 && b1 <= 0xBF,
            (4, 0xF0) => b1 >= 0x90 && b1 <= 0xBF,
            (4, 0xF4) => b1 >= 0x80 && b1 <= 0x8F,
            (_, _) => b1 >= 0x80 && b1 <= 0xBF,
        };
        if !ok1 {
            return Err((i, Some(1)));
        }
        if width >= 3 {
            if i + 2 >= n {
                return Err((i, None));
            }
            let b2 = v[i + 2];
            if !(b2 >= 0x80 && b2 <= 0xBF) {
                return Err((i, Some(2)));
            }
        }
        if width == 4 {
            if i + 3 >= n {
                return Err((i, None));
            }
            let b3 = v[i + 3];
            if !(b3 >= 0x80 && b3 <= 0xBF) {
                return Err((i, Some(3)));
            }
        }
        i += width;
    }
    Ok(())
}

// ---- table of genuine `Utf8Error` values, produced by the real validator at compile time ----
// (`Utf8Error` has private fields and the crate forbids `unsafe`, so the only way to return an
// exact error from a stub is to let const evaluation run the real `from_utf8` once per
// (valid_up_to, error_len) pair.)

pub const MAX_UP_TO: usize = 24;

const fn mk_err(valid_up_to: usize, kind: usize) -> Utf8Error {
    let mut buf = [b'a'; MAX_UP_TO + 4];
    let total = match kind {
        0 => {
            buf[valid_up_to] = 0xC3;
            valid_up_to + 1
        }
        1 => {
            buf[valid_up_to] = 0xFF;
            valid_up_to + 1
        }
        2 => {
            buf[valid_up_to] = 0xE1;
            buf[valid_up_to + 1] = 0x80;
            buf[valid_up_to + 2] = 0x41;
            valid_up_to + 3
        }
        _ => {
            buf[valid_up_to] = 0xF1;
            buf[valid_up_to + 1] = 0x80;
            buf[valid_up_to + 2] = 0x80;
            buf[valid_up_to + 3] = 0x41;
            valid_up_to + 4
        }
    };
    let (head, _) = buf.split_at(total);
    match core::str::from_utf8(head) {
        Err(e) => e,
        Ok(_) => panic!("stdlite: table construction"),
    }
}

const fn mk_row(kind: usize) -> [Utf8Error; MAX_UP_TO] {
    let mut row = [mk_err(0, kind); MAX_UP_TO];
    let mut i = 0;
    while i < MAX_UP_TO {
        row[i] = mk_err(i, kind);
        i += 1;
    }
    row
}

static ERR_TABLE: [[Utf8Error; MAX_UP_TO]; 4] = [mk_row(0), mk_row(1), mk_row(2), mk_row(3)];

/// Replacement for `core::str::validations::run_utf8_validation`.
/// Exact for errors whose `valid_up_to` < MAX_UP_TO (24); harness inputs are far shorter.
pub fn run_utf8_validation(v: &[u8]) -> Result<(), Utf8Error> {
    match utf8_check(v) {
        Ok(()) => Ok(()),
        Err((up_to, len)) => {
            let kind = match len {
                None => 0,
                Some(1) => 1,
                Some(2) => 2,
                _ => 3,
            };
            let idx = if up_to < MAX_UP_TO { up_to } else { MAX_UP_TO - 1 };
            Err(ERR_TABLE[kind][idx])
        }
    }
}

/// Replacement for `core::str::count::count_chars` (`str.chars().count()`).
pub fn count_chars(s: &str) -> usize {
    let b = s.as_bytes();
    let mut n = 0usize;
    let mut i = 0usize;
    while i < b.len() {
        if (b[i] & 0xC0) != 0x80 {
            n += 1;
        }
        i += 1;
    }
    n
}

/// Replacement for `core::slice::memchr::memchr`.
pub fn memchr(x: u8, text: &[u8]) -> Option<usize> {
    let mut i = 0usize;
    while i < text.len() {
        if text[i] == x {
            return Some(i);
        }
        i += 1;
    }
    None
}

/// Replacement for `core::slice::memchr::memrchr`.
pub fn memrchr(x: u8, text: &[u8]) -> Option<usize> {
    let mut i = text.len();
    while i > 0 {
        i -= 1;
        if text[i] == x {
            return Some(i);
        }
    }
    None
}

/// Replacement for `core::str::pattern::simd_contains` (used by `str::contains(&str)` for
/// needles of 2..=8 bytes). Always answers (`Some`), by naive search.
pub fn simd_contains(needle: &str, haystack: &str) -> Option<bool> {
    let n = needle.as_bytes();
    let h = haystack.as_bytes();
    if n.len() > h.len() {
        return Some(false);
    }
    let mut i = 0usize;
    while i + n.len() <= h.len() {
        let mut j = 0usize;
        let mut eq = true;
        while j < n.len() {
            if h[i + j] != n[j] {
                eq = false;
                break;
            }
            j += 1;
        }
        if eq {
            return Some(true);
        }
        i += 1;
    }
    Some(false)
}

/// Replacement for `alloc::fmt::format` where the formatted text is *not* the subject of the
/// harness (error messages built with `format!`). Returns an empty string.
pub fn format_stub(_args: core::fmt::Arguments<'_>) -> String {
    String::new()
}

/// Unicode White_Space (the set `char::is_whitespace` tests), on a decoded code point.
pub fn is_white_space(cp: u32) -> bool {
    (cp >= 0x09 && cp <= 0x0D)
        || cp == 0x20
        || cp == 0x85
        || cp == 0xA0
        || cp == 0x1680
        || (cp >= 0x2000 && cp <= 0x200A)
        || cp == 0x2028
        || cp == 0x2029
        || cp == 0x202F
        || cp == 0x205F
        || cp == 0x3000
}

/// Decode the character starting at byte i of a valid UTF-8 string: (code point, width).
fn decode_at(b: &[u8], i: usize) -> (u32, usize) {
    let b0 = b[i];
    if b0 < 0x80 {
        (b0 as u32, 1)
    } else if b0 < 0xE0 {
        ((((b0 & 0x1F) as u32) << 6) | (b[i + 1] & 0x3F) as u32, 2)
    } else if b0 < 0xF0 {
        ((((b0 & 0x0F) as u32) << 12) | (((b[i + 1] & 0x3F) as u32) << 6) | (b[i + 2] & 0x3F) as u32, 3)
    } else {
        (
            (((b0 & 0x07) as u32) << 18)
                | (((b[i + 1] & 0x3F) as u32) << 12)
                | (((b[i + 2] & 0x3F) as u32) << 6)
                | (b[i + 3] & 0x3F) as u32,
            4,
        )
    }
}

/// Exact replacement for `str::trim` (all of Unicode White_Space), naive byte loops.
pub fn trim_exact(s: &str) -> &str {
    let b = s.as_bytes();
    let mut lo = 0;
    let mut hi = b.len();
    while lo < hi {
        let (cp, w) = decode_at(b, lo);
        if !is_white_space(cp) {
            break;
        }
        lo += w;
    }
    while hi > lo {
        // start of the last character
        let mut st = hi - 1;
        while st > lo && (b[st] & 0xC0) == 0x80 {
            st -= 1;
        }
        let (cp, _w) = decode_at(b, st);
        if !is_white_space(cp) {
            break;
        }
        hi = st;
    }
    &s[lo..hi]
}

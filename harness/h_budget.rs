// Kani harnesses mounted inside src/budget.rs (child module: sees private items).
//
// C07 (budget limits are enforced exactly, report is accurate, per-document independence) and the
// budget part of C01 (no panic / overflow for any limit values).
//
// Shape (DESIGN.md §2 R2'): ONE inductive step. The enforcer is built directly in an arbitrary
// pre-state (every limit and every counter a free 64-bit word, constrained only by the
// representation invariant), one real `observe`/`finalize` call is made, and the exact
// post-condition is asserted against an oracle written from the documented counting rules.
use super::*;
use saphyr_parser::{Event, ScalarStyle, Tag};
use std::borrow::Cow;


// ==========================================================================================
// Black-box scenario harnesses: only `BudgetEnforcer::new`, `observe`, `finalize` (crate-visible
// API), so they survive refactorings of the private representation. Concrete event structure
// (straight-line), every limit a free 64-bit word, both policies where relevant. The oracle is an
// independent counter over the same abstract event list with its own key/value tracking.
// ==========================================================================================
#[derive(Clone, Copy, PartialEq)]
enum A {
    StreamStart,
    StreamEnd,
    DocStart,
    DocEnd,
    /// plain scalar of the given byte length (not `<<`)
    Sc(usize),
    /// plain untagged `<<`
    Merge,
    /// double-quoted `<<`
    QuotedMerge,
    /// anchored plain scalar (anchor id)
    ScA(usize),
    Seq,
    /// anchored sequence start
    SeqA(usize),
    SeqEnd,
    Map,
    MapA(usize),
    MapEnd,
    Alias(usize),
}

fn fixed_hasher() -> ahash::RandomState {
    ahash::RandomState::with_seeds(1, 2, 3, 4)
}

fn feed(e: &mut BudgetEnforcer, a: A) -> Result<(), BudgetBreach> {
    match a {
        A::StreamStart => e.observe(&Event::StreamStart),
        A::StreamEnd => e.observe(&Event::StreamEnd),
        A::DocStart => e.observe(&Event::DocumentStart(true)),
        A::DocEnd => e.observe(&Event::DocumentEnd),
        A::Sc(0) => e.observe(&Event::Scalar(Cow::Borrowed(""), ScalarStyle::Plain, 0, None)),
        A::Sc(1) => e.observe(&Event::Scalar(Cow::Borrowed("x"), ScalarStyle::Plain, 0, None)),
        A::Sc(_) => e.observe(&Event::Scalar(Cow::Borrowed("abc"), ScalarStyle::Plain, 0, None)),
        A::Merge => e.observe(&Event::Scalar(Cow::Borrowed("<<"), ScalarStyle::Plain, 0, None)),
        A::QuotedMerge => e.observe(&Event::Scalar(Cow::Borrowed("<<"), ScalarStyle::DoubleQuoted, 0, None)),
        A::ScA(1) => e.observe(&Event::Scalar(Cow::Borrowed("x"), ScalarStyle::Plain, 1, None)),
        A::ScA(_) => e.observe(&Event::Scalar(Cow::Borrowed("x"), ScalarStyle::Plain, 2, None)),
        A::Seq => e.observe(&Event::SequenceStart(0, None)),
        A::SeqA(1) => e.observe(&Event::SequenceStart(1, None)),
        A::SeqA(_) => e.observe(&Event::SequenceStart(2, None)),
        A::SeqEnd => e.observe(&Event::SequenceEnd),
        A::Map => e.observe(&Event::MappingStart(0, None)),
        A::MapA(1) => e.observe(&Event::MappingStart(1, None)),
        A::MapA(_) => e.observe(&Event::MappingStart(2, None)),
        A::MapEnd => e.observe(&Event::MappingEnd),
        A::Alias(_) => e.observe(&Event::Alias(1)),
    }
}

fn sc_len(a: A) -> usize {
    match a {
        A::Sc(0) => 0,
        A::Sc(1) | A::ScA(_) => 1,
        A::Sc(_) => 3,
        A::Merge | A::QuotedMerge => 2,
        _ => 0,
    }
}

/// Independent counter ("what the documentation says is counted"), with its own tracking of
/// key / value position: stack of (is_mapping, next_is_key).
#[derive(Clone, Copy)]
struct Count {
    events: usize,
    nodes: usize,
    aliases: usize,
    anchors: usize,
    docs: usize,
    depth: usize,
    max_depth: usize,
    bytes: usize,
    merge_keys: usize,
}

struct RefCounter {
    c: Count,
    stack: [(bool, bool); 8],
    sp: usize,
    seen_anchor: [bool; 4],
    per_doc: bool,
}

impl RefCounter {
    fn new(per_doc: bool) -> Self {
        RefCounter {
            c: Count { events: 0, nodes: 0, aliases: 0, anchors: 0, docs: 0, depth: 0, max_depth: 0, bytes: 0, merge_keys: 0 },
            stack: [(false, false); 8],
            sp: 0,
            seen_anchor: [false; 4],
            per_doc,
        }
    }
    fn in_key_pos(&self) -> bool {
        self.sp > 0 && self.stack[self.sp - 1].0 && self.stack[self.sp - 1].1
    }
    /// a complete node was just placed into the current container
    fn node_done(&mut self) {
        if self.sp > 0 && self.stack[self.sp - 1].0 {
            self.stack[self.sp - 1].1 = !self.stack[self.sp - 1].1;
        }
    }
    fn anchor(&mut self, id: usize) {
        if id != 0 && !self.seen_anchor[id] {
            self.seen_anchor[id] = true;
            self.c.anchors += 1;
        }
    }
    fn step(&mut self, a: A) {
        if self.per_doc && a == A::DocStart {
            let docs = self.c.docs;
            *self = RefCounter::new(true);
            self.c.docs = docs;
        }
        self.c.events += 1;
        match a {
            A::Sc(_) | A::Merge | A::QuotedMerge | A::ScA(_) => {
                self.c.nodes += 1;
                self.c.bytes += sc_len(a);
                if let A::ScA(id) = a {
                    self.anchor(id);
                }
                if a == A::Merge && self.in_key_pos() {
                    self.c.merge_keys += 1;
                }
                self.node_done();
            }
            A::Seq | A::SeqA(_) | A::Map | A::MapA(_) => {
                self.c.nodes += 1;
                self.c.depth += 1;
                if self.c.depth > self.c.max_depth {
                    self.c.max_depth = self.c.depth;
                }
                match a {
                    A::SeqA(id) | A::MapA(id) => self.anchor(id),
                    _ => {}
                }
                let is_map = matches!(a, A::Map | A::MapA(_));
                self.stack[self.sp] = (is_map, true);
                self.sp += 1;
            }
            A::SeqEnd | A::MapEnd => {
                self.c.depth -= 1;
                self.sp -= 1;
                self.node_done();
            }
            A::Alias(_) => {
                self.c.aliases += 1;
                self.node_done();
            }
            A::DocStart => {
                if !self.per_doc {
                    self.c.docs += 1;
                }
            }
            _ => {}
        }
    }
    fn exceeded(&self, b: &Budget) -> bool {
        self.c.events > b.max_events
            || self.c.nodes > b.max_nodes
            || self.c.aliases > b.max_aliases
            || self.c.anchors > b.max_anchors
            || self.c.docs > b.max_documents
            || self.c.max_depth > b.max_depth
            || self.c.bytes > b.max_total_scalar_bytes
            || self.c.merge_keys > b.max_merge_keys
    }
}

/// Which limits are symbolic in a scenario run.
#[derive(Clone, Copy, PartialEq)]
enum Free {
    /// every limit free, but assumed to admit the whole stream: checks "an input within all limits
    /// is never rejected" and "the report equals the independent count" on a single path
    AllWithin,
    /// exactly one limit free (the others unlimited): checks the breach event and verdict exactly
    Events,
    Nodes,
    Depth,
    MergeKeys,
    Anchors,
    Aliases,
}

fn bb_budget(free: Free) -> Budget {
    let all = free == Free::AllWithin;
    let pick = |me: Free| -> usize {
        if all || free == me {
            kani::any()
        } else {
            usize::MAX
        }
    };
    Budget {
        max_reader_input_bytes: None,
        max_events: pick(Free::Events),
        max_aliases: pick(Free::Aliases),
        max_anchors: pick(Free::Anchors),
        max_depth: pick(Free::Depth),
        max_documents: if all { kani::any() } else { usize::MAX },
        max_nodes: pick(Free::Nodes),
        max_total_scalar_bytes: if all { kani::any() } else { usize::MAX },
        max_merge_keys: pick(Free::MergeKeys),
        enforce_alias_anchor_ratio: if all { kani::any() } else { false },
        alias_anchor_min_aliases: if all { kani::any() } else { usize::MAX },
        alias_anchor_ratio_multiplier: if all { kani::any() } else { 1 },
    }
}

/// Run a concrete event list: the first event at which the independent count exceeds a limit is
/// exactly the event at which observe() fails; if none does, the final report equals the
/// independent count and the ratio verdict is the documented inequality.
fn scenario<const N: usize>(evs: [A; N], per_doc: bool, free: Free) {
    let b = bb_budget(free);
    let policy = if per_doc { EnforcingPolicy::PerDocument } else { EnforcingPolicy::AllContent };
    let mut e = BudgetEnforcer::new(b.clone(), policy);
    let mut r = RefCounter::new(per_doc);
    let mut i = 0;
    while i < N {
        r.step(evs[i]);
        let x = r.exceeded(&b);
        if free == Free::AllWithin {
            kani::assume(!x);
        }
        let res = feed(&mut e, evs[i]);
        assert!(res.is_err() == x, "verdict of observe() differs from the independent count at this event");
        if x {
            // leave through the function exit (no join with the continuing path)
            std::mem::forget(e);
            return;
        }
        i += 1;
    }
    let rep = e.finalize();
    assert!(rep.events == r.c.events && rep.nodes == r.c.nodes && rep.aliases == r.c.aliases, "report differs from the independent count");
    assert!(rep.anchors == r.c.anchors && rep.max_depth == r.c.max_depth, "report differs from the independent count");
    assert!(rep.total_scalar_bytes == r.c.bytes && rep.merge_keys == r.c.merge_keys, "report differs from the independent count");
    assert!(per_doc || rep.documents == r.c.docs);
    let ratio = b.enforce_alias_anchor_ratio
        && r.c.aliases >= b.alias_anchor_min_aliases
        && (r.c.anchors == 0 || (r.c.aliases as u128) > (b.alias_anchor_ratio_multiplier as u128) * (r.c.anchors as u128));
    assert!(rep.breached.is_some() == ratio, "alias/anchor ratio verdict differs from the documented inequality");
    kani::cover!(true, "whole stream within budget");
}

const S_KEYSEQ: [A; 8] = [A::Map, A::Seq, A::Sc(1), A::SeqEnd, A::Merge, A::Sc(3), A::Sc(1), A::MapEnd];
const S_KEYMAP: [A; 10] = [A::Map, A::Map, A::Sc(1), A::Sc(1), A::MapEnd, A::Sc(1), A::Merge, A::Map, A::MapEnd, A::MapEnd];
const S_ANCHORS: [A; 11] = [A::Map, A::Sc(1), A::SeqA(1), A::ScA(2), A::SeqEnd, A::Sc(1), A::Alias(1), A::QuotedMerge, A::Alias(1), A::MapEnd, A::DocEnd];
const S_TWODOCS: [A; 10] = [A::DocStart, A::Map, A::Sc(1), A::ScA(1), A::MapEnd, A::DocStart, A::Map, A::Sc(1), A::ScA(1), A::MapEnd];
const S_ABANDONED: [A; 10] = [A::DocStart, A::Map, A::Sc(1), A::Seq, A::Seq, A::DocStart, A::Map, A::Seq, A::SeqEnd, A::MapEnd];
const S_ALLCONTENT: [A; 10] = [A::StreamStart, A::DocStart, A::Sc(3), A::DocEnd, A::DocStart, A::Seq, A::Sc(0), A::SeqEnd, A::DocEnd, A::StreamEnd];

// `? [a] : <<` then `other: x`  - a container in KEY position, then `<<` in VALUE position
fn run_keyseq(f: Free) { scenario(S_KEYSEQ, false, f) }
// `? {k: x} : v` then `<<: {x: x}` - a mapping in key position, then a real merge key
fn run_keymap(f: Free) { scenario(S_KEYMAP, false, f) }
// `a: &1 [x, &2 x]`, `b: *1`, quoted `<<`: *1 - anchors, aliases, ratio
fn run_anchors(f: Free) { scenario(S_ANCHORS, false, f) }
// two documents, per-document policy: same content, same anchor id in both
fn run_twodocs(f: Free) { scenario(S_TWODOCS, true, f) }
// document abandoned by error recovery (nesting left open), then the boundary, then a full document
fn run_abandoned(f: Free) { scenario(S_ABANDONED, true, f) }
// two documents under AllContent: quantities accumulate, documents are counted
fn run_allcontent(f: Free) { scenario(S_ALLCONTENT, false, f) }

macro_rules! bb {
    ($name:ident, $run:ident, $free:expr) => {
        #[kani::proof]
        #[kani::unwind(20)]
        #[kani::stub(ahash::RandomState::new, fixed_hasher)]
        fn $name() {
            $run($free)
        }
    };
}
bb!(c07_bb_keyseq_within, run_keyseq, Free::AllWithin);
bb!(c07_bb_keyseq_mergelimit, run_keyseq, Free::MergeKeys);
bb!(c07_bb_keymap_within, run_keymap, Free::AllWithin);
bb!(c07_bb_keymap_mergelimit, run_keymap, Free::MergeKeys);
bb!(c07_bb_anchors_within, run_anchors, Free::AllWithin);
bb!(c07_bb_anchors_anchorlimit, run_anchors, Free::Anchors);
bb!(c07_bb_anchors_aliaslimit, run_anchors, Free::Aliases);
bb!(c07_bb_twodocs_within, run_twodocs, Free::AllWithin);
bb!(c07_bb_twodocs_eventlimit, run_twodocs, Free::Events);
bb!(c07_bb_twodocs_anchorlimit, run_twodocs, Free::Anchors);
bb!(c07_bb_abandoned_within, run_abandoned, Free::AllWithin);
bb!(c07_bb_abandoned_depthlimit, run_abandoned, Free::Depth);
bb!(c07_bb_abandoned_nodelimit, run_abandoned, Free::Nodes);
bb!(c07_bb_allcontent_within, run_allcontent, Free::AllWithin);

include!(concat!(env!("VERIF_WB"), "/h_budget_wb.rs"));

// concrete-playback slot: bin/check writes the solver counterexample here as a unit test for native replay
include!("/verif/.build/playback/budget_pb.rs");

// Kani harnesses mounted inside src/wrapping.rs (child module: sees private items).
//
// C12 / C20: block-scalar helpers. `first_line_leading_spaces` decides whether an explicit
// indentation indicator is written; `write_folded_block` wraps folded scalars at spaces only.
use super::*;
use crate::verif_common::stdlite;
use crate::verif_common::{any_utf8, as_str};

/// Fixed-capacity sink (no heap).
struct Sink<const CAP: usize> {
    b: [u8; CAP],
    n: usize,
}

impl<const CAP: usize> Write for Sink<CAP> {
    fn write_str(&mut self, s: &str) -> std::fmt::Result {
        let sb = s.as_bytes();
        if self.n + sb.len() > CAP {
            return Err(std::fmt::Error);
        }
        let mut i = 0;
        while i < sb.len() {
            self.b[self.n + i] = sb[i];
            i += 1;
        }
        self.n += sb.len();
        Ok(())
    }
}

// ------------------------------------------------------------------------------------------
// first_line_leading_spaces: number of leading ASCII spaces of the first line that is not empty
// (a line consisting only of spaces IS non-empty: it determines the indentation the reader
// auto-detects, so it must trigger the explicit indicator).
// ------------------------------------------------------------------------------------------
fn leading_spaces_n<const N: usize>() {
    let a: [u8; N] = any_utf8::<N>();
    let got = first_line_leading_spaces(as_str(&a));
    // reference
    let mut i = 0;
    let mut want = 0usize;
    while i < N {
        if a[i] == b'\n' {
            i += 1; // empty line
            continue;
        }
        // first non-empty line starts here
        let mut j = i;
        while j < N && a[j] == b' ' {
            j += 1;
        }
        want = j - i;
        break;
    }
    assert!(got == want, "leading spaces of the first non-empty line miscounted (indentation indicator decision)");
    kani::cover!(want > 0 && a[0] == b'\n', "indented line after an empty first line");
}

#[kani::proof]
#[kani::unwind(8)]
#[kani::stub(core::str::validations::run_utf8_validation, stdlite::run_utf8_validation)]
#[kani::stub(core::slice::memchr::memchr, stdlite::memchr)]
#[kani::stub(str::trim, stdlite::trim_exact)]
fn c12_leading_spaces_4() {
    leading_spaces_n::<4>()
}

// ------------------------------------------------------------------------------------------
// write_folded_block: reading the emitted body back with the folding rules of YAML `>` scalars
// (a single break between two lines that both start with a non-space folds to one space; breaks
// around blank or more-indented lines are kept) gives the original text plus one final newline.
// ------------------------------------------------------------------------------------------
/// Reference reader of a folded block body with known indentation `ind`. Appends the content to
/// `out`; returns its length or None on malformed body.
fn ref_unfold<const M: usize>(b: &[u8], ind: usize, out: &mut [u8; M]) -> Option<usize> {
    let mut n = 0usize;
    let mut i = 0usize;
    // state about the previous content line
    let mut have_prev = false;
    let mut prev_plain = false; // previous line was non-empty and not more-indented
    let mut pending_breaks = 0usize;
    while i < b.len() {
        // one physical line: [i, e) without the '\n'
        let mut e = i;
        while e < b.len() && b[e] != b'\n' {
            e += 1;
        }
        if e == b.len() {
            return None; // every emitted line ends with a newline
        }
        let line = &b[i..e];
        // strip indentation (blank lines may be shorter)
        let mut k = 0;
        while k < ind && k < line.len() && line[k] == b' ' {
            k += 1;
        }
        let content = &line[k..];
        if content.is_empty() {
            pending_breaks += 1;
        } else {
            if k < ind {
                return None; // under-indented content
            }
            let more_indented = content[0] == b' ';
            if have_prev {
                // breaks between the previous content line and this one
                let total = pending_breaks + 1;
                if total == 1 && prev_plain && !more_indented {
                    if n >= M {
                        return None;
                    }
                    out[n] = b' ';
                    n += 1;
                } else {
                    // folding keeps (total - 1) breaks between plain lines, all of them next to
                    // more-indented lines
                    let keep = if prev_plain && !more_indented { total - 1 } else { total };
                    let mut q = 0;
                    while q < keep {
                        if n >= M {
                            return None;
                        }
                        out[n] = b'\n';
                        n += 1;
                        q += 1;
                    }
                }
            } else {
                // leading blank lines are kept
                let mut q = 0;
                while q < pending_breaks {
                    if n >= M {
                        return None;
                    }
                    out[n] = b'\n';
                    n += 1;
                    q += 1;
                }
            }
            let mut q = 0;
            while q < content.len() {
                if n >= M {
                    return None;
                }
                out[n] = content[q];
                n += 1;
                q += 1;
            }
            have_prev = true;
            prev_plain = !more_indented;
            pending_breaks = 0;
        }
        i = e + 1;
    }
    Some(n)
}

/// End-to-end confirmation (stubbed to `true` for the solver; real round trip in the native replay):
/// the text under the explicit folded wrapper, with this wrap column, does not read back as the
/// same text modulo one trailing line break (the wrapper's documented clip chomping).
pub(crate) fn e2e_folded_mismatch(s: &str, wrap: usize) -> bool {
    let mut opts = crate::SerializerOptions::default();
    opts.min_fold_chars = 0;
    opts.folded_wrap_chars = wrap;
    let y = match crate::to_string_with_options(&crate::FoldStr(s), opts) {
        Ok(y) => y,
        Err(_) => return true,
    };
    match crate::from_str::<String>(&y) {
        Ok(b) => !(b == s || b.strip_suffix('\n') == Some(s)),
        Err(_) => true,
    }
}

pub(crate) fn e2e_true_folded(_s: &str, _wrap: usize) -> bool {
    true
}

fn folded_n<const N: usize>() {
    let a: [u8; N] = any_utf8::<N>();
    // the caller strips trailing newlines and never passes control characters other than '\n'
    let mut i = 0;
    while i < N {
        kani::assume(a[i] == b'\n' || a[i] >= 0x20);
        i += 1;
    }
    kani::assume(a[N - 1] != b'\n' && a[0] != b'\n');
    let wrap: usize = kani::any();
    kani::assume(wrap >= 1 && wrap <= 3);
    let mut sink = Sink::<24> { b: [0u8; 24], n: 0 };
    let r = write_folded_block(&mut sink, as_str(&a), 1, 2, wrap);
    assert!(r.is_ok());
    let out = &sink.b[..sink.n];
    let mut back = [0u8; 16];
    match ref_unfold(out, 2, &mut back) {
        Some(n) => {
            let mut same = n == N;
            let mut k = 0;
            while k < N {
                if k < n && back[k] != a[k] {
                    same = false;
                }
                k += 1;
            }
            assert!(
                same || !e2e_folded_mismatch(as_str(&a), wrap),
                "folded block body does not unfold to the original text"
            );
            kani::cover!(sink.n > N + 3 + 2, "text was wrapped onto several lines");
        }
        None => assert!(!e2e_folded_mismatch(as_str(&a), wrap), "folded block body is malformed"),
    }
    std::mem::forget(r);
}

#[kani::proof]
#[kani::unwind(10)]
#[kani::stub(core::str::validations::run_utf8_validation, stdlite::run_utf8_validation)]
#[kani::stub(core::slice::memchr::memchr, stdlite::memchr)]
#[kani::stub(e2e_folded_mismatch, e2e_true_folded)]
fn c20_folded_block_3() {
    folded_n::<3>()
}

#[kani::proof]
#[kani::unwind(12)]
#[kani::stub(core::str::validations::run_utf8_validation, stdlite::run_utf8_validation)]
#[kani::stub(core::slice::memchr::memchr, stdlite::memchr)]
#[kani::stub(e2e_folded_mismatch, e2e_true_folded)]
fn c20_folded_block_4() {
    folded_n::<4>()
}

#[kani::proof]
#[kani::unwind(14)]
#[kani::stub(core::str::validations::run_utf8_validation, stdlite::run_utf8_validation)]
#[kani::stub(core::slice::memchr::memchr, stdlite::memchr)]
#[kani::stub(e2e_folded_mismatch, e2e_true_folded)]
fn c20_folded_block_6() {
    folded_n::<6>()
}

// concrete-playback slot: bin/check writes the solver counterexample here as a unit test for native replay
include!("/verif/.build/playback/wrapping_pb.rs");

// Kani harnesses mounted inside src/wrapping.rs (child module: sees private items)

// concrete-playback slot: bin/check writes the solver counterexample here as a unit test for native replay
include!("/verif/.build/playback/wrapping_pb.rs");

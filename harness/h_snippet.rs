// Kani harnesses mounted inside src/de/snippet.rs (child module: sees private items).
//
// C17 (rendered reports are terminal-safe, cropped and show the right line) and the snippet part
// of C01 (byte-offset arithmetic in cropping never panics).
use super::*;
use crate::verif_common::stdlite;
use crate::verif_common::{any_utf8, as_str};

/// `String::from_utf8_lossy` is only reached by the sanitiser if it broke UTF-8 validity (which
/// would also change the byte length): reaching it is a violation.
fn lossy_unreachable(_v: &[u8]) -> std::borrow::Cow<'_, str> {
    assert!(false, "sanitiser produced invalid UTF-8 (lossy fallback reached)");
    std::borrow::Cow::Borrowed("")
}

/// Reference predicate, written independently of `is_terminal_snippet_clean`:
/// no C0 control other than \n and \t, no DEL, no C1 control (U+0080..U+009F = C2 80..C2 9F).
fn ref_clean(b: &[u8]) -> bool {
    let mut i = 0;
    while i < b.len() {
        let x = b[i];
        if x == 0x7F || (x < 0x20 && x != b'\n' && x != b'\t') {
            return false;
        }
        if x == 0xC2 && i + 1 < b.len() && b[i + 1] >= 0x80 && b[i + 1] <= 0x9F {
            return false;
        }
        i += 1;
    }
    true
}

fn ref_chars(b: &[u8]) -> usize {
    let mut n = 0;
    let mut i = 0;
    while i < b.len() {
        if b[i] & 0xC0 != 0x80 {
            n += 1;
        }
        i += 1;
    }
    n
}

fn is_boundary(b: &[u8], i: usize) -> bool {
    i == b.len() || (i < b.len() && b[i] & 0xC0 != 0x80)
}

// ------------------------------------------------------------------------------------------
// sanitize: byte length preserved, result clean, every non-control byte untouched.
// ------------------------------------------------------------------------------------------
fn sanitize_n<const N: usize>() {
    let a: [u8; N] = any_utf8::<N>();
    let s = String::from(as_str(&a));
    let out = sanitize_terminal_snippet_preserve_len(s);
    let ob = out.as_bytes();
    assert!(ob.len() == N, "sanitising changed the byte length");
    assert!(ref_clean(ob), "control character survives sanitising");
    assert!(is_terminal_snippet_clean(&out) == ref_clean(ob));
    assert!(stdlite::utf8_check(ob).is_ok());
    let mut i = 0;
    while i < N {
        let ctrl = a[i] == 0x7F || (a[i] < 0x20 && a[i] != b'\n' && a[i] != b'\t');
        let c1 = i > 0 && a[i - 1] == 0xC2 && a[i] >= 0x80 && a[i] <= 0x9F;
        if !ctrl && !c1 {
            assert!(ob[i] == a[i], "a harmless byte was altered");
        }
        i += 1;
    }
    // the implementation's own predicate agrees with the reference on the raw input too
    assert!(is_terminal_snippet_clean(as_str(&a)) == ref_clean(&a));
    kani::cover!(!ref_clean(&a), "input contained a control character");
    kani::cover!(ref_clean(&a), "input was clean");
    std::mem::forget(out);
}

#[kani::proof]
#[kani::unwind(7)]
#[kani::stub(core::str::validations::run_utf8_validation, stdlite::run_utf8_validation)]
#[kani::stub(alloc::string::String::from_utf8_lossy, lossy_unreachable)]
fn c17_sanitize_4() {
    sanitize_n::<4>()
}

#[kani::proof]
#[kani::unwind(9)]
#[kani::stub(core::str::validations::run_utf8_validation, stdlite::run_utf8_validation)]
#[kani::stub(alloc::string::String::from_utf8_lossy, lossy_unreachable)]
fn c17_sanitize_6() {
    sanitize_n::<6>()
}

// ------------------------------------------------------------------------------------------
// crop_line_by_cols: window [left,right] in character columns, ellipses, span rebasing.
// Callers establish 1 <= left <= right (left = max(col - r, 1), right = col + r, r >= 1).
// ------------------------------------------------------------------------------------------
fn crop_line_n<const N: usize>() {
    let a: [u8; N] = any_utf8::<N>();
    let mut i = 0;
    while i < N {
        kani::assume(a[i] != b'\n');
        i += 1;
    }
    let line = as_str(&a);
    let col: usize = kani::any();
    let radius: usize = kani::any();
    kani::assume(radius >= 1);
    let left = col.saturating_sub(radius).max(1);
    let right = col.saturating_add(radius);
    let (out, crop) = crop_line_by_cols(line, left, right);
    let ob = out.as_bytes();
    let nchars = ref_chars(&a);
    // 1. never more than the window plus two ellipses
    let kept_max = right - left + 1;
    let out_chars = ref_chars(ob);
    assert!(out_chars <= nchars);
    if left > nchars {
        // documented exception: a (context) line that ends before the window starts is kept intact
        // rather than being reduced to an ellipsis
        assert!(ob.len() == N && crop.start_byte == 0 && crop.prefix_bytes == 0, "short line left of the window must be kept intact");
    } else {
        assert!(out_chars <= kept_max.saturating_add(2), "cropped line wider than the window");
    }
    assert!(stdlite::utf8_check(ob).is_ok());
    // 2. rebasing: a byte offset of a character inside the window maps to the same character
    assert!(is_boundary(&a, crop.start_byte));
    let off: usize = kani::any();
    kani::assume(off < N && is_boundary(&a, off));
    let col_of_off = ref_chars(&a[..off]) + 1;
    if col_of_off >= left && col_of_off <= right {
        let new_off = crop.prefix_bytes + (off - crop.start_byte);
        assert!(off >= crop.start_byte);
        assert!(new_off < ob.len() && ob[new_off] == a[off], "marker no longer under the same character");
        kani::cover!(crop.prefix_bytes > 0, "left ellipsis and rebased marker");
    }
    kani::cover!(out_chars < nchars, "cropped");
    kani::cover!(out_chars == nchars, "not cropped");
    std::mem::forget(out);
}

#[kani::proof]
#[kani::unwind(7)]
#[kani::stub(core::str::validations::run_utf8_validation, stdlite::run_utf8_validation)]
#[kani::stub(core::str::count::count_chars, stdlite::count_chars)]
fn c17_crop_line_4() {
    crop_line_n::<4>()
}

#[kani::proof]
#[kani::unwind(15)]
#[kani::stub(core::str::validations::run_utf8_validation, stdlite::run_utf8_validation)]
#[kani::stub(core::str::count::count_chars, stdlite::count_chars)]
fn c17_crop_line_6() {
    crop_line_n::<6>()
}

// ------------------------------------------------------------------------------------------
// Coordinate kernels: (row, col) -> byte offset, next char boundary. C01 (no panic) and the
// consistency half of C16/C17: the offset returned is a char boundary on the requested line and
// exactly col-1 characters after the line start.
// ------------------------------------------------------------------------------------------
fn coords_n<const N: usize>() {
    let a: [u8; N] = any_utf8::<N>();
    let text = as_str(&a);
    let starts = line_starts(text);
    let row: usize = kani::any();
    let col: usize = kani::any();
    // reference: line count = 1 + number of '\n'
    let mut nl = 0;
    let mut i = 0;
    while i < N {
        if a[i] == b'\n' {
            nl += 1;
        }
        i += 1;
    }
    assert!(starts.len() == nl + 1);
    match line_col_to_byte_offset_with_starts(text, &starts, row, col) {
        Some(off) => {
            assert!(row >= 1 && row <= nl + 1 && col >= 1);
            assert!(off <= N && is_boundary(&a, off));
            let ls = starts[row - 1];
            assert!(off >= ls);
            // no line break strictly inside [ls, off)
            let mut j = ls;
            while j < off {
                assert!(a[j] != b'\n');
                j += 1;
            }
            assert!(ref_chars(&a[ls..off]) == col - 1, "column does not count characters");
            match next_char_boundary(text, off) {
                Some(e) => assert!(e > off && e <= N && is_boundary(&a, e) && ref_chars(&a[off..e]) == 1),
                None => assert!(off == N),
            }
            kani::cover!(row == 2, "second line addressed");
        }
        None => {
            kani::cover!(row >= 1 && row <= nl + 1, "column past end of line");
        }
    }
    std::mem::forget(starts);
}

#[kani::proof]
#[kani::unwind(7)]
#[kani::stub(core::str::validations::run_utf8_validation, stdlite::run_utf8_validation)]
fn c17_coords_4() {
    coords_n::<4>()
}

#[kani::proof]
#[kani::unwind(6)]
#[kani::stub(core::str::validations::run_utf8_validation, stdlite::run_utf8_validation)]
fn c17_coords_3() {
    coords_n::<3>()
}

#[kani::proof]
#[kani::unwind(5)]
#[kani::stub(core::str::validations::run_utf8_validation, stdlite::run_utf8_validation)]
fn c17_coords_2() {
    coords_n::<2>()
}

// ------------------------------------------------------------------------------------------
// crop_window_text: the routine both renderers use. For every short window text, error position
// and radius: no panic, output is terminal-clean, the rebased span is in range, ordered, on a
// character boundary, and points at the same (sanitised) character as before.
// ------------------------------------------------------------------------------------------
fn crop_window_n<const N: usize>() {
    let a: [u8; N] = any_utf8::<N>();
    let text = as_str(&a);
    let starts = line_starts(text);
    let row: usize = kani::any();
    let col: usize = kani::any();
    let radius: usize = kani::any();
    kani::assume(row >= 1 && row <= starts.len());
    // callers compute the span exactly like this (fmt_or_fallback / fmt_snippet_window_*):
    let Some(start) = line_col_to_byte_offset_with_starts(text, &starts, row, col) else {
        std::mem::forget(starts);
        return;
    };
    let end = match a.get(start) {
        Some(b'\n') | Some(b'\r') => start,
        _ => next_char_boundary(text, start).unwrap_or(start),
    };
    let (out, ns, ne) = crop_window_text(text, 1, row, col, radius, start, end);
    let ob = out.as_bytes();
    assert!(ref_clean(ob), "rendered window contains a control character");
    assert!(ns <= ne && ne <= ob.len(), "span out of range");
    assert!(is_boundary(ob, ns) && is_boundary(ob, ne));
    assert!(stdlite::utf8_check(ob).is_ok());
    // vertical extent: never more lines than the input window
    let mut nl_in = 0;
    let mut nl_out = 0;
    let mut i = 0;
    while i < N {
        if a[i] == b'\n' {
            nl_in += 1;
        }
        i += 1;
    }
    i = 0;
    while i < ob.len() {
        if ob[i] == b'\n' {
            nl_out += 1;
        }
        i += 1;
    }
    assert!(nl_out == nl_in, "cropping changed the number of lines");
    // marker: if it pointed at a visible character, it still points at that character
    if end > start {
        let c = a[start];
        let ctrl = c == 0x7F || c < 0x20 || (c == 0xC2 && a[start + 1] >= 0x80 && a[start + 1] <= 0x9F);
        if !ctrl {
            assert!(ne > ns && ob[ns] == c, "marker moved to a different character");
            kani::cover!(radius != 0 && ns != start, "marker rebased");
        }
    }
    // the marker stays on the error row
    let mut r_out = 1;
    i = 0;
    while i < ns {
        if ob[i] == b'\n' {
            r_out += 1;
        }
        i += 1;
    }
    assert!(r_out == row, "marker left the reported line");
    kani::cover!(radius == 0, "no horizontal cropping");
    kani::cover!(radius == 1 && ob.len() != N, "cropped to radius 1");
    std::mem::forget(out);
    std::mem::forget(starts);
}

#[kani::proof]
#[kani::unwind(7)]
#[kani::stub(core::str::validations::run_utf8_validation, stdlite::run_utf8_validation)]
#[kani::stub(core::str::count::count_chars, stdlite::count_chars)]
#[kani::stub(core::slice::memchr::memchr, stdlite::memchr)]
#[kani::stub(core::slice::memchr::memrchr, stdlite::memrchr)]
#[kani::stub(alloc::string::String::from_utf8_lossy, lossy_unreachable)]
fn c17_crop_window_3() {
    crop_window_n::<3>()
}

#[kani::proof]
#[kani::unwind(6)]
#[kani::stub(core::str::validations::run_utf8_validation, stdlite::run_utf8_validation)]
#[kani::stub(core::str::count::count_chars, stdlite::count_chars)]
#[kani::stub(core::slice::memchr::memchr, stdlite::memchr)]
#[kani::stub(core::slice::memchr::memrchr, stdlite::memrchr)]
#[kani::stub(alloc::string::String::from_utf8_lossy, lossy_unreachable)]
fn c17_crop_window_2() {
    crop_window_n::<2>()
}

#[kani::proof]
#[kani::unwind(8)]
#[kani::stub(core::str::validations::run_utf8_validation, stdlite::run_utf8_validation)]
#[kani::stub(core::str::count::count_chars, stdlite::count_chars)]
#[kani::stub(core::slice::memchr::memchr, stdlite::memchr)]
#[kani::stub(core::slice::memchr::memrchr, stdlite::memrchr)]
#[kani::stub(alloc::string::String::from_utf8_lossy, lossy_unreachable)]
fn c17_crop_window_4() {
    crop_window_n::<4>()
}

// ------------------------------------------------------------------------------------------
// crop_source_window: vertical window kept with the error (C01: no slice panic; C17: at most
// five lines, contains the referenced line, start_line arithmetic).
// ------------------------------------------------------------------------------------------
fn source_window_n<const N: usize>() {
    let a: [u8; N] = any_utf8::<N>();
    let text = as_str(&a);
    let line: u32 = kani::any();
    let column: u32 = kani::any();
    let loc = Location::new(line as usize, column as usize);
    let radius: usize = kani::any();
    let mapping = if kani::any() {
        LineMapping::Identity
    } else {
        LineMapping::Offset {
            start_line: kani::any(),
        }
    };
    let (out, start_line) = crop_source_window(text, &loc, mapping, radius);
    let ob = out.as_bytes();
    let mut nl_out = 0;
    let mut i = 0;
    while i < ob.len() {
        if ob[i] == b'\n' {
            nl_out += 1;
        }
        i += 1;
    }
    assert!(nl_out <= 5, "more than two lines of context either side");
    assert!(ob.len() <= N);
    if !ob.is_empty() {
        // the stored window covers the row the location refers to
        let abs = line as usize;
        assert!(start_line <= abs && abs <= start_line + nl_out, "window does not contain the error line");
        kani::cover!(start_line > 1, "window does not start at line 1");
    }
    kani::cover!(ob.is_empty(), "location outside text");
    std::mem::forget(out);
}

#[kani::proof]
#[kani::unwind(8)]
#[kani::stub(core::str::validations::run_utf8_validation, stdlite::run_utf8_validation)]
#[kani::stub(core::str::count::count_chars, stdlite::count_chars)]
#[kani::stub(core::slice::memchr::memchr, stdlite::memchr)]
#[kani::stub(core::slice::memchr::memrchr, stdlite::memrchr)]
fn c17_source_window_4() {
    source_window_n::<4>()
}

#[kani::proof]
#[kani::unwind(6)]
#[kani::stub(core::str::validations::run_utf8_validation, stdlite::run_utf8_validation)]
#[kani::stub(core::str::count::count_chars, stdlite::count_chars)]
#[kani::stub(core::slice::memchr::memchr, stdlite::memchr)]
#[kani::stub(core::slice::memchr::memrchr, stdlite::memrchr)]
fn c17_source_window_2() {
    source_window_n::<2>()
}

#[kani::proof]
#[kani::unwind(7)]
#[kani::stub(core::str::validations::run_utf8_validation, stdlite::run_utf8_validation)]
#[kani::stub(core::str::count::count_chars, stdlite::count_chars)]
#[kani::stub(core::slice::memchr::memchr, stdlite::memchr)]
#[kani::stub(core::slice::memchr::memrchr, stdlite::memrchr)]
fn c17_source_window_3() {
    source_window_n::<3>()
}


// concrete-playback slot: bin/check writes the solver counterexample here as a unit test for native replay
include!("/verif/.build/playback/snippet_pb.rs");

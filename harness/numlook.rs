// Hand-written recogniser of the language of `ser_quoting::is_numeric_looking`'s regular
// expression. Installed as a Kani stub for that function (the `regex` crate's engine cannot be
// symbolically executed). Plain Rust: /verif/stdlite_test compiles this file natively and compares
// it with the real regex - extracted from /repo/src/ser_quoting.rs at run time - on every string
// up to 5 symbols over the regex's alphabet (translator validation).
//
//   ^[+-]?(?: 0[xX][0-9A-Fa-f_]+ | 0[oO][0-7_]+ | 0[bB][01_]+
//           | (?: [0-9][0-9_]*\.[0-9_]* | \.[0-9][0-9_]* ) (?:[eE][+-]?[0-9][0-9_]*)?
//           | [0-9][0-9_]*[eE][+-]?[0-9][0-9_]*
//           | _*[0-9][0-9_]* )$
#![allow(dead_code)]

fn is_dec(c: u8) -> bool {
    c >= b'0' && c <= b'9'
}

/// `[0-9][0-9_]*` starting at i; returns the index after the run or None
fn digits_run(b: &[u8], i: usize) -> Option<usize> {
    if i >= b.len() || !is_dec(b[i]) {
        return None;
    }
    let mut j = i + 1;
    while j < b.len() && (is_dec(b[j]) || b[j] == b'_') {
        j += 1;
    }
    Some(j)
}

/// `(?:[eE][+-]?[0-9][0-9_]*)` starting at i, must reach the end
fn exponent_to_end(b: &[u8], i: usize) -> bool {
    if i >= b.len() || !(b[i] == b'e' || b[i] == b'E') {
        return false;
    }
    let mut j = i + 1;
    if j < b.len() && (b[j] == b'+' || b[j] == b'-') {
        j += 1;
    }
    match digits_run(b, j) {
        Some(k) => k == b.len(),
        None => false,
    }
}

pub fn numeric_looking(s: &str) -> bool {
    let b = s.as_bytes();
    let mut i = 0;
    if i < b.len() && (b[i] == b'+' || b[i] == b'-') {
        i += 1;
    }
    let r = &b[i..];
    // explicit radices (either case of the prefix letter, as in the regex)
    if r.len() >= 3 && r[0] == b'0' && matches!(r[1], b'x' | b'X' | b'o' | b'O' | b'b' | b'B') {
        let mut ok = true;
        let mut j = 2;
        while j < r.len() {
            let c = r[j];
            let good = match r[1] | 0x20 {
                b'x' => is_dec(c) || (c >= b'a' && c <= b'f') || (c >= b'A' && c <= b'F') || c == b'_',
                b'o' => (c >= b'0' && c <= b'7') || c == b'_',
                _ => c == b'0' || c == b'1' || c == b'_',
            };
            if !good {
                ok = false;
                break;
            }
            j += 1;
        }
        if ok {
            return true;
        }
    }
    // `\.[0-9][0-9_]*` (exp)?
    if !r.is_empty() && r[0] == b'.' {
        return match digits_run(r, 1) {
            Some(k) => k == r.len() || exponent_to_end(r, k),
            None => false,
        };
    }
    // `_*[0-9][0-9_]*` to the end: plain integer with optional leading separators
    {
        let mut j = 0;
        while j < r.len() && r[j] == b'_' {
            j += 1;
        }
        if j > 0 {
            return match digits_run(r, j) {
                Some(k) => k == r.len(),
                None => false,
            };
        }
    }
    // starts with a digit run
    match digits_run(r, 0) {
        None => false,
        Some(k) => {
            if k == r.len() {
                return true; // plain integer
            }
            if r[k] == b'.' {
                // `[0-9_]*` after the dot, then optional exponent
                let mut j = k + 1;
                while j < r.len() && (is_dec(r[j]) || r[j] == b'_') {
                    j += 1;
                }
                return j == r.len() || exponent_to_end(r, j);
            }
            exponent_to_end(r, k)
        }
    }
}

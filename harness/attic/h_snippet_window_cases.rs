
// ------------------------------------------------------------------------------------------
// crop_window_text / crop_source_window on CONCRETE adversarial texts with the error position and
// the crop radius symbolic: for each text below, every (row, column, radius) is covered by the
// solver. (Fully symbolic texts are only affordable up to 2-3 bytes, see the *_2/_3 harnesses.)
// ------------------------------------------------------------------------------------------
fn crop_window_case(text: &'static str) {
    let a = text.as_bytes();
    let n = a.len();
    let starts = line_starts(text);
    let row: usize = kani::any();
    let col: usize = kani::any();
    let radius: usize = kani::any();
    kani::assume(row >= 1 && row <= starts.len());
    let Some(start) = line_col_to_byte_offset_with_starts(text, &starts, row, col) else {
        std::mem::forget(starts);
        return;
    };
    let end = match a.get(start) {
        Some(b'\n') | Some(b'\r') => start,
        _ => next_char_boundary(text, start).unwrap_or(start),
    };
    // the vertical window of the callers: two lines either side
    let total_lines = starts.len();
    let ws_row = row.saturating_sub(2).max(1);
    let we_row = row.saturating_add(2).min(total_lines);
    let ws = starts[ws_row - 1];
    let we = if we_row < total_lines { starts[we_row] } else { n };
    let window = &text[ws..we];
    let (out, ns, ne) = crop_window_text(window, ws_row, row, col, radius, start - ws, (end - ws).min(window.len()));
    let ob = out.as_bytes();
    assert!(ref_clean(ob), "rendered window contains a control character");
    assert!(ns <= ne && ne <= ob.len(), "span out of range");
    assert!(is_boundary(ob, ns) && is_boundary(ob, ne));
    assert!(stdlite::utf8_check(ob).is_ok());
    // marker: still on the reported row, and under the same visible character
    let mut r_out = ws_row;
    let mut i = 0;
    while i < ns {
        if ob[i] == b'\n' {
            r_out += 1;
        }
        i += 1;
    }
    assert!(r_out == row, "marker left the reported line");
    if end > start {
        let c = a[start];
        let ctrl = c == 0x7F || c < 0x20 || (c == 0xC2 && a[start + 1] >= 0x80 && a[start + 1] <= 0x9F);
        if !ctrl {
            assert!(ne > ns && ob[ns] == c, "marker moved to a different character");
            // the character under the marker is complete
            let mut k = 1;
            while start + k < end {
                assert!(ob[ns + k] == a[start + k]);
                k += 1;
            }
        }
    }
    kani::cover!(radius == 1 && ob.len() < window.len(), "cropped to radius 1");
    kani::cover!(radius == 0, "uncropped");
    std::mem::forget(out);
    std::mem::forget(starts);
}

macro_rules! window_case {
    ($name:ident, $text:expr) => {
        #[kani::proof]
        #[kani::unwind(28)]
        #[kani::stub(core::str::validations::run_utf8_validation, stdlite::run_utf8_validation)]
        #[kani::stub(core::str::count::count_chars, stdlite::count_chars)]
        #[kani::stub(core::slice::memchr::memchr, stdlite::memchr)]
        #[kani::stub(core::slice::memchr::memrchr, stdlite::memrchr)]
        #[kani::stub(alloc::string::String::from_utf8_lossy, lossy_unreachable)]
        fn $name() {
            crop_window_case($text)
        }
    };
}
// ESC sequence and C1 control next to multi-byte characters, single line
window_case!(c17_window_case_controls, "k\u{e9}\u{1b}[1m\u{85}\u{20ac}z");
// CRLF + lone CR + trailing newline (error on the implicit empty last line is possible)
window_case!(c17_window_case_crlf, "ab\r\nc\rd\n");
// six short lines: vertical window clipping at both ends
window_case!(c17_window_case_lines, "a\nbb\n\nccc\nd\ne");
// one long-ish line of multi-byte characters: horizontal cropping at every column
window_case!(c17_window_case_wide, "\u{4e16}\u{754c}\u{1f30d}ab\u{e9}\u{df}xyz");


// Kani harnesses mounted inside src/live_events.rs (child module: sees private items).
//
// C02 / C07 / C08 / C11 at the level of the event pump, as ONE inductive step each: `LiveEvents`
// is built directly in a pre-state of concrete structure (which anchors are recorded, how many
// frames are open) with symbolic counters, limits and indices; the parser is played by the
// one-shot `SaphyrParser::Scripted` hook; one `next_impl()` is run and the post-state is compared
// with the documented behaviour.
//
// Environment contract of the scripted parser (saphyr-parser): anchor ids are >= 1 and dense; an
// `Alias(id)` names an id the parser has issued. `anchor_store::recursive_anchor_in_progress`
// (thread-local => Kani ICE) is stubbed to `false`: recursion wrappers are outside every claim.
use super::*;

fn stub_no_recursion(_id: usize) -> bool {
    false
}

fn loc(n: u32) -> Location {
    Location {
        line: n,
        column: n,
        span: crate::location::Span::UNKNOWN,
    }
}

fn sc(text: &'static str, anchor: usize, l: u32) -> Ev<'static> {
    Ev::Scalar {
        value: Cow::Borrowed(text),
        tag: SfTag::None,
        raw_tag: None,
        style: ScalarStyle::Plain,
        anchor,
        location: loc(l),
    }
}

fn seq_start(anchor: usize, l: u32) -> Ev<'static> {
    Ev::SeqStart {
        anchor,
        tag: SfTag::None,
        raw_tag: None,
        location: loc(l),
    }
}

fn seq_end(l: u32) -> Ev<'static> {
    Ev::SeqEnd { location: loc(l) }
}

/// 0 scalar, 1 seq start, 2 seq end, 3 map start, 4 map end, 5 taken
fn kind(e: &Ev<'_>) -> u8 {
    match e {
        Ev::Scalar { .. } => 0,
        Ev::SeqStart { .. } => 1,
        Ev::SeqEnd { .. } => 2,
        Ev::MapStart { .. } => 3,
        Ev::MapEnd { .. } => 4,
        Ev::Taken { .. } => 5,
    }
}

fn same_event(a: &Ev<'_>, b: &Ev<'_>) -> bool {
    if kind(a) != kind(b) || a.location() != b.location() {
        return false;
    }
    match (a, b) {
        (
            Ev::Scalar {
                value: v1,
                style: s1,
                anchor: a1,
                tag: t1,
                ..
            },
            Ev::Scalar {
                value: v2,
                style: s2,
                anchor: a2,
                tag: t2,
                ..
            },
        ) => v1.as_ref().len() == v2.as_ref().len() && v1.as_ref().as_ptr() == v2.as_ref().as_ptr() && s1 == s2 && a1 == a2 && t1 == t2,
        (Ev::SeqStart { anchor: a1, .. }, Ev::SeqStart { anchor: a2, .. }) => a1 == a2,
        (Ev::MapStart { anchor: a1, .. }, Ev::MapStart { anchor: a2, .. }) => a1 == a2,
        _ => true,
    }
}

fn any_limits() -> AliasLimits {
    AliasLimits {
        max_total_replayed_events: kani::any(),
        max_replay_stack_depth: kani::any(),
        max_alias_expansions_per_anchor: kani::any(),
    }
}

fn mk<'a>(raw: Option<Result<(Event<'a>, Span), ScanError>>, limits: AliasLimits) -> LiveEvents<'a> {
    LiveEvents {
        parser: SaphyrParser::Scripted(raw),
        input: None,
        produced_any_in_doc: true,
        synthesized_null_emitted: false,
        look: None,
        inject: Vec::new(),
        anchors: Vec::new(),
        rec_stack: Vec::new(),
        budget: None,
        budget_report: None,
        budget_report_cb: None,
        last_location: Location::UNKNOWN,
        alias_limits: limits,
        total_replayed_events: 0,
        per_anchor_expansions: Vec::new(),
        stop_at_doc_end: false,
        seen_doc_end: false,
        error: Rc::new(RefCell::new(None)),
    }
}

fn raw(ev: Event<'static>) -> Option<Result<(Event<'static>, Span), ScanError>> {
    Some(Ok((ev, Span::default())))
}

// ------------------------------------------------------------------------------------------
// Alias step. Pre-state: anchor 1 recorded (a scalar, or a 3-event sequence), `nested` replay
// frames already active, arbitrary replay accounting. Raw event: Alias(1).
// C02: the first event delivered is anchors[1][0], unchanged.  C08: admitted iff all three limits
// admit it; every counter moves by exactly one.
// ------------------------------------------------------------------------------------------
fn alias_step(container: bool, nested: bool) {
    let limits = any_limits();
    let mut le = mk(raw(Event::Alias(1)), limits);
    let buf: Box<[Ev<'static>]> = if container {
        vec![seq_start(1, 3), sc("v", 0, 4), seq_end(5)].into_boxed_slice()
    } else {
        vec![sc("x", 1, 3)].into_boxed_slice()
    };
    let first = buf[0].clone();
    le.anchors = vec![None, Some(buf), None];
    let total0: usize = kani::any();
    let exp0: usize = kani::any();
    kani::assume(total0 <= limits.max_total_replayed_events);
    le.total_replayed_events = total0;
    le.per_anchor_expansions = vec![0, exp0];
    let depth0 = if nested {
        // an outer replay (of anchor 2, exhausted or not is irrelevant here) is active
        le.anchors[2] = Some(vec![sc("o", 2, 7)].into_boxed_slice());
        le.inject.push(InjectFrame {
            anchor_id: 2,
            idx: 1,
            reference_location: loc(9),
        });
        1usize
    } else {
        0
    };
    // raw events are only pulled once every replay frame is exhausted and popped, so the new
    // frame is always pushed onto an empty stack (recorded buffers never contain aliases)
    let depth_at_push = 0usize;
    let _ = depth0;

    let r = le.next_impl();

    let admit = exp0 < limits.max_alias_expansions_per_anchor
        && depth_at_push + 1 <= limits.max_replay_stack_depth
        && total0 < limits.max_total_replayed_events;
    match &r {
        Ok(Some(ev)) => {
            assert!(admit, "alias expanded beyond a configured limit");
            assert!(same_event(ev, &first), "the alias does not start with a copy of the anchored node's first event");
            assert!(le.total_replayed_events == total0 + 1, "replayed event not counted exactly once");
            assert!(le.per_anchor_expansions[1] == exp0.saturating_add(1), "expansion of this anchor not counted");
            assert!(le.inject.len() == 1 && le.inject[0].anchor_id == 1 && le.inject[0].idx == 1);
            kani::cover!(true, "alias expanded");
        }
        Ok(None) => assert!(false, "alias vanished"),
        Err(_) => {
            assert!(!admit, "alias rejected although every limit admits it");
            kani::cover!(true, "alias rejected by a limit");
        }
    }
    std::mem::forget(r);
    std::mem::forget(first);
    std::mem::forget(le);
}

macro_rules! pump {
    ($name:ident, $body:expr) => {
        #[kani::proof]
        #[kani::unwind(6)]
        #[kani::stub(crate::anchor_store::recursive_anchor_in_progress, stub_no_recursion)]
        fn $name() {
            $body
        }
    };
}
pump!(c08_alias_step_scalar, alias_step(false, false));
pump!(c08_alias_step_container, alias_step(true, false));
pump!(c08_alias_step_nested, alias_step(false, true));

// ------------------------------------------------------------------------------------------
// Alias to an id that is not recorded (never anchored in this document, cleared by a document
// boundary, or still being recorded): always an error, never a default or stale value.
// ------------------------------------------------------------------------------------------
fn alias_unknown(open_frame: bool) {
    let limits = any_limits();
    let mut le = mk(raw(Event::Alias(1)), limits);
    le.anchors = vec![None, None, None];
    le.per_anchor_expansions = vec![0, kani::any()];
    le.total_replayed_events = kani::any();
    if open_frame {
        // anchor 1 is a container whose end has not been seen yet: `&a [ *a ]`
        let mut b: SmallVec<[Ev<'static>; SMALLVECT_INLINE]> = SmallVec::new();
        b.push(seq_start(1, 2));
        le.rec_stack.push(RecFrame {
            id: 1,
            depth: 1,
            buf: b,
        });
    }
    let r = le.next_impl();
    assert!(r.is_err(), "an alias without a completed anchor in this document produced a value");
    kani::cover!(true, "rejected");
    std::mem::forget(r);
    std::mem::forget(le);
}
pump!(c02_alias_unknown, alias_unknown(false));
pump!(c02_alias_to_open_anchor, alias_unknown(true));

// ------------------------------------------------------------------------------------------
// Replay step. Pre-state: a replay frame of anchor 1 (3-event sequence) at a symbolic index.
// Delivers exactly anchors[1][idx] and advances; an exhausted frame is popped and the parser is
// pulled; the total-replayed limit is checked on every replayed event.
// ------------------------------------------------------------------------------------------
fn replay_step() {
    let limits = any_limits();
    let mut le = mk(raw(Event::Scalar(Cow::Borrowed("p"), ScalarStyle::Plain, 0, None)), limits);
    let b0 = seq_start(1, 3);
    let b1 = sc("v", 0, 4);
    let b2 = seq_end(5);
    le.anchors = vec![None, Some(vec![b0.clone(), b1.clone(), b2.clone()].into_boxed_slice())];
    let idx0: usize = kani::any();
    kani::assume(idx0 <= 3);
    le.inject.push(InjectFrame {
        anchor_id: 1,
        idx: idx0,
        reference_location: loc(9),
    });
    let total0: usize = kani::any();
    kani::assume(total0 <= limits.max_total_replayed_events);
    le.total_replayed_events = total0;
    let r = le.next_impl();
    if idx0 < 3 {
        let want = if idx0 == 0 {
            &b0
        } else if idx0 == 1 {
            &b1
        } else {
            &b2
        };
        match &r {
            Ok(Some(ev)) => {
                assert!(total0 < limits.max_total_replayed_events, "replayed beyond max_total_replayed_events");
                assert!(same_event(ev, want), "replayed event differs from the recorded one at this index");
                assert!(le.inject.len() == 1 && le.inject[0].idx == idx0 + 1, "replay cursor did not advance by one");
                assert!(le.total_replayed_events == total0 + 1);
                assert!(le.reference_location() == loc(9), "use-site location lost during replay");
                kani::cover!(idx0 == 2, "last recorded event replayed");
            }
            Ok(None) => assert!(false),
            Err(_) => {
                assert!(total0 >= limits.max_total_replayed_events, "replay rejected within the limit");
                kani::cover!(true, "total replay limit hit");
            }
        }
    } else {
        // exhausted: popped, then the raw scalar "p" is delivered and nothing is counted as replay
        match &r {
            Ok(Some(Ev::Scalar { value, .. })) => {
                assert!(value.as_ref().len() == 1);
                assert!(le.inject.is_empty(), "exhausted replay frame not popped");
                assert!(le.total_replayed_events == total0, "a raw event was counted as replayed");
            }
            _ => assert!(false, "raw event lost after an exhausted replay"),
        }
        kani::cover!(true, "exhausted frame popped");
    }
    std::mem::forget(r);
    std::mem::forget(le);
}
pump!(c08_replay_step, replay_step());

// ------------------------------------------------------------------------------------------
// Recording step (C02: anchored subtrees are recorded event by event and finalised when their
// container closes). Pre-state: one open recording frame for anchor 2 holding [SeqStart] (+1
// scalar), at symbolic nesting depth. One raw event of each kind.
// ------------------------------------------------------------------------------------------
fn record_step(which: u8) {
    let limits = any_limits();
    let ev = match which {
        0 => Event::Scalar(Cow::Borrowed("q"), ScalarStyle::Plain, 0, None),
        1 => Event::SequenceStart(0, None),
        2 => Event::SequenceEnd,
        3 => Event::MappingStart(0, None),
        _ => Event::MappingEnd,
    };
    let mut le = mk(raw(ev), limits);
    let mut b: SmallVec<[Ev<'static>; SMALLVECT_INLINE]> = SmallVec::new();
    b.push(seq_start(2, 2));
    b.push(sc("w", 0, 3));
    let d0: usize = kani::any();
    kani::assume(d0 >= 1 && d0 < 1000);
    le.rec_stack.push(RecFrame {
        id: 2,
        depth: d0,
        buf: b,
    });
    le.anchors = vec![None, None, None];
    let r = le.next_impl();
    let is_start = which == 1 || which == 3;
    let is_end = which == 2 || which == 4;
    match &r {
        Ok(Some(out)) => {
            assert!(kind(out) == which, "delivered event is not the raw event's image");
            if is_end && d0 == 1 {
                // the anchored container closed: finalised under its id, frame gone
                assert!(le.rec_stack.is_empty(), "finished recording frame not finalised");
                match &le.anchors[2] {
                    Some(rec) => {
                        assert!(rec.len() == 3 && kind(&rec[0]) == 1 && kind(&rec[1]) == 0 && kind(&rec[2]) == which);
                    }
                    None => assert!(false, "anchor buffer missing after its container closed"),
                }
                kani::cover!(true, "anchor finalised");
            } else {
                assert!(le.rec_stack.len() == 1, "recording frame dropped or duplicated");
                let f = &le.rec_stack[0];
                assert!(f.buf.len() == 3 && kind(&f.buf[2]) == which, "event not appended exactly once to the open recording");
                let want_depth = if is_start {
                    d0 + 1
                } else if is_end {
                    d0 - 1
                } else {
                    d0
                };
                assert!(f.depth == want_depth, "nesting depth of the recording is off");
                assert!(le.anchors[2].is_none(), "anchor published before its container closed");
                kani::cover!(true, "recorded into the open frame");
            }
        }
        _ => assert!(false, "well-formed raw event rejected"),
    }
    std::mem::forget(r);
    std::mem::forget(le);
}
pump!(c02_record_scalar, record_step(0));
pump!(c02_record_seq_start, record_step(1));
pump!(c02_record_seq_end, record_step(2));
pump!(c02_record_map_start, record_step(3));
pump!(c02_record_map_end, record_step(4));

// ------------------------------------------------------------------------------------------
// Anchored scalar (C02: attaching an anchor never changes the node's own value; the recorded
// buffer is exactly that event; empty quoted anchored scalars are normalised to plain).
// ------------------------------------------------------------------------------------------
fn anchored_scalar(style_sel: u8, empty: bool) {
    let limits = any_limits();
    let style = match style_sel {
        0 => ScalarStyle::Plain,
        1 => ScalarStyle::SingleQuoted,
        _ => ScalarStyle::DoubleQuoted,
    };
    let text: &'static str = if empty { "" } else { "zz" };
    let mut le = mk(raw(Event::Scalar(Cow::Borrowed(text), style, 1, None)), limits);
    let r = le.next_impl();
    match &r {
        Ok(Some(Ev::Scalar {
            value,
            style: st,
            anchor,
            ..
        })) => {
            assert!(value.as_ref().len() == text.len(), "anchoring changed the scalar text");
            assert!(*anchor == 1);
            let want_style_plain = style_sel == 0 || empty;
            assert!(matches!(st, ScalarStyle::Plain) == want_style_plain, "anchoring changed the scalar style");
            match le.anchors.get(1) {
                Some(Some(rec)) => {
                    assert!(rec.len() == 1 && kind(&rec[0]) == 0, "anchored scalar not recorded as exactly one event");
                }
                _ => assert!(false, "anchored scalar not recorded"),
            }
            kani::cover!(true, "anchored scalar delivered and recorded");
        }
        _ => assert!(false),
    }
    std::mem::forget(r);
    std::mem::forget(le);
}
pump!(c02_anchored_scalar_plain, anchored_scalar(0, false));
pump!(c02_anchored_scalar_quoted, anchored_scalar(2, false));
pump!(c02_anchored_scalar_empty_quoted, anchored_scalar(1, true));

// ------------------------------------------------------------------------------------------
// Document boundary (C11: per-document state is cleared; anchors of one document are not visible
// in another; C08/C07: replay accounting restarts).
// ------------------------------------------------------------------------------------------
fn doc_boundary(start: bool) {
    let limits = any_limits();
    let ev = if start { Event::DocumentStart(true) } else { Event::DocumentEnd };
    let mut le = mk(raw(ev), limits);
    le.anchors = vec![None, Some(vec![sc("x", 1, 3)].into_boxed_slice()), None];
    le.per_anchor_expansions = vec![0, kani::any(), kani::any()];
    le.total_replayed_events = kani::any();
    let mut b: SmallVec<[Ev<'static>; SMALLVECT_INLINE]> = SmallVec::new();
    b.push(seq_start(2, 2));
    le.rec_stack.push(RecFrame {
        id: 2,
        depth: kani::any(),
        buf: b,
    });
    let r = le.next_impl();
    // the scripted parser is exhausted after the boundary: end of stream
    assert!(matches!(&r, Ok(None)), "a document boundary produced an event");
    assert!(le.inject.is_empty() && le.rec_stack.is_empty(), "replay/recording state survives a document boundary");
    assert!(le.anchors.iter().all(|a| a.is_none()), "an anchor of the previous document is still resolvable");
    assert!(le.per_anchor_expansions.iter().all(|c| *c == 0), "per-anchor expansion counters survive a document boundary");
    assert!(le.total_replayed_events == 0, "replay counter survives a document boundary");
    assert!(le.seen_doc_end == !start);
    kani::cover!(true, "boundary processed");
    std::mem::forget(r);
    std::mem::forget(le);
}
pump!(c11_doc_start_resets, doc_boundary(true));
pump!(c11_doc_end_resets, doc_boundary(false));


// ------------------------------------------------------------------------------------------
// Direct calls of the recording kernels (no next_impl, hence no `Error` drop glue): cheap enough
// for the quick tier. Two open recording frames (anchor 2 outside, anchor 3 inside).
// ------------------------------------------------------------------------------------------
fn record_direct(which: u8) {
    let mut le = mk(None, any_limits());
    let mut b2: SmallVec<[Ev<'static>; SMALLVECT_INLINE]> = SmallVec::new();
    b2.push(seq_start(2, 2));
    b2.push(seq_start(3, 3));
    let mut b3: SmallVec<[Ev<'static>; SMALLVECT_INLINE]> = SmallVec::new();
    b3.push(seq_start(3, 3));
    let d3: usize = kani::any();
    kani::assume(d3 >= 1 && d3 < 1000);
    let d2 = d3 + 1;
    le.rec_stack.push(RecFrame { id: 2, depth: d2, buf: b2 });
    le.rec_stack.push(RecFrame { id: 3, depth: d3, buf: b3 });
    le.anchors = vec![None, None, None, None];
    // the event, recorded the way next_impl does for a raw event of this kind
    let ev = match which {
        0 => sc("q", 0, 9),
        1 => seq_start(0, 9),
        _ => seq_end(9),
    };
    let res = match which {
        0 => {
            le.record(&ev, false, false);
            Ok(())
        }
        1 => {
            le.bump_depth_on_start();
            le.record(&ev, true, false);
            Ok(())
        }
        _ => {
            le.record(&ev, false, false);
            le.bump_depth_on_end()
        }
    };
    assert!(res.is_ok(), "balanced event rejected by the recorder");
    if which == 2 && d3 == 1 {
        // inner anchor finished: published with exactly its events, outer frame keeps recording
        assert!(le.rec_stack.len() == 1 && le.rec_stack[0].id == 2);
        match &le.anchors[3] {
            Some(rec) => assert!(rec.len() == 2 && kind(&rec[0]) == 1 && kind(&rec[1]) == 2, "finalised buffer is not exactly the anchored node"),
            None => assert!(false, "anchor not published when its container closed"),
        }
        assert!(le.rec_stack[0].buf.len() == 3 && le.rec_stack[0].depth == d2 - 1);
        assert!(le.anchors[2].is_none());
        kani::cover!(true, "inner anchor finalised");
    } else {
        assert!(le.rec_stack.len() == 2, "a recording frame was dropped");
        let delta_up = which == 1;
        let delta_down = which == 2;
        let f2 = &le.rec_stack[0];
        let f3 = &le.rec_stack[1];
        assert!(f2.buf.len() == 3 && f3.buf.len() == 2, "event not recorded exactly once into every open frame");
        assert!(kind(&f2.buf[2]) == kind(&ev) && kind(&f3.buf[1]) == kind(&ev));
        assert!(f2.depth == if delta_up { d2 + 1 } else if delta_down { d2 - 1 } else { d2 });
        assert!(f3.depth == if delta_up { d3 + 1 } else if delta_down { d3 - 1 } else { d3 });
        assert!(le.anchors[2].is_none() && le.anchors[3].is_none(), "anchor published before its container closed");
        kani::cover!(true, "recorded into both frames");
    }
    std::mem::forget(res);
    std::mem::forget(ev);
    std::mem::forget(le);
}
pump!(c02_record_direct_scalar, record_direct(0));
pump!(c02_record_direct_start, record_direct(1));
pump!(c02_record_direct_end, record_direct(2));

/// anchored container start: a new frame is seeded with the start event, outer frames record it too
#[kani::proof]
#[kani::unwind(6)]
fn c02_record_direct_seeded() {
    let mut le = mk(None, any_limits());
    let mut b2: SmallVec<[Ev<'static>; SMALLVECT_INLINE]> = SmallVec::new();
    b2.push(seq_start(2, 2));
    let d2: usize = kani::any();
    kani::assume(d2 >= 1 && d2 < 1000);
    le.rec_stack.push(RecFrame { id: 2, depth: d2, buf: b2 });
    let ev = seq_start(3, 5);
    // what next_impl does for `&3 [`
    le.bump_depth_on_start();
    let mut nb: SmallVec<[Ev<'static>; SMALLVECT_INLINE]> = SmallVec::new();
    nb.push(ev.clone());
    le.rec_stack.push(RecFrame { id: 3, depth: 1, buf: nb });
    le.record(&ev, true, true);
    assert!(le.rec_stack.len() == 2);
    assert!(le.rec_stack[0].buf.len() == 2 && le.rec_stack[0].depth == d2 + 1, "outer recording misses the nested anchored start");
    assert!(le.rec_stack[1].buf.len() == 1 && le.rec_stack[1].depth == 1, "start event recorded twice into its own frame");
    kani::cover!(true, "seeded");
    std::mem::forget(ev);
    std::mem::forget(le);
}

#[kani::proof]
#[kani::unwind(6)]
fn c11_reset_direct() {
    let mut le = mk(None, any_limits());
    le.anchors = vec![None, Some(vec![sc("x", 1, 3)].into_boxed_slice()), None];
    le.per_anchor_expansions = vec![0, kani::any(), kani::any()];
    le.total_replayed_events = kani::any();
    le.seen_doc_end = kani::any();
    le.inject.push(InjectFrame { anchor_id: 1, idx: kani::any(), reference_location: loc(9) });
    let mut b: SmallVec<[Ev<'static>; SMALLVECT_INLINE]> = SmallVec::new();
    b.push(seq_start(2, 2));
    le.rec_stack.push(RecFrame { id: 2, depth: kani::any(), buf: b });
    le.reset_document_state();
    assert!(le.inject.is_empty() && le.rec_stack.is_empty(), "replay/recording state survives a document boundary");
    assert!(le.anchors.len() == 3 && le.anchors[0].is_none() && le.anchors[1].is_none() && le.anchors[2].is_none(), "an anchor of the previous document is still resolvable");
    assert!(le.per_anchor_expansions[1] == 0 && le.per_anchor_expansions[2] == 0, "per-anchor expansion counters survive a document boundary");
    assert!(le.total_replayed_events == 0 && !le.seen_doc_end);
    kani::cover!(true, "reset");
    std::mem::forget(le);
}

// concrete-playback slot: bin/check writes the solver counterexample here as a unit test for native replay
include!("/verif/.build/playback/live_events_pb.rs");

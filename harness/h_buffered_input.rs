// Kani harnesses mounted inside src/buffered_input.rs (child module: sees private items).
//
// C09 (any chunking of the reader's bytes yields the same characters), C10 (reader faults, early
// EOF inside a code point and the input-size cap are never swallowed) and the reader part of C01.
//
// Environment: a stub `Read` whose chunk sizes, fault position and error kind are symbolic; it
// obeys the documented `Read` contract (0 < n <= buf.len() unless at end of data; `Interrupted` is
// not produced - the property excludes it as retryable).
use super::*;
use crate::verif_common::stdlite;
use std::io::ErrorKind;

struct StubReader<const N: usize> {
    data: [u8; N],
    pos: usize,
    /// number of bytes of `data` the reader will serve
    end: usize,
    calls: usize,
    /// index of the read() call that fails (usize::MAX = never)
    fail_at: usize,
    fail_kind: u8,
    failed: bool,
    /// largest single request seen, total bytes handed out
    handed: usize,
}

fn kind_of(k: u8) -> ErrorKind {
    match k % 6 {
        0 => ErrorKind::Other,
        1 => ErrorKind::UnexpectedEof,
        2 => ErrorKind::BrokenPipe,
        3 => ErrorKind::InvalidData,
        4 => ErrorKind::TimedOut,
        _ => ErrorKind::ConnectionReset,
    }
}

impl<const N: usize> Read for StubReader<N> {
    fn read(&mut self, buf: &mut [u8]) -> io::Result<usize> {
        if buf.is_empty() {
            return Ok(0);
        }
        let call = self.calls;
        // Progress measure: one step needs at most 4 reads that make progress (1 + 3 continuation
        // bytes) plus one that reports end of data. A loop that keeps polling a reader which has
        // nothing more to give (a hang) trips this assertion with a replayable witness instead of
        // only an unwinding failure.
        assert!(call < 6, "the reader is polled again and again without progress: the step does not terminate");
        self.calls += 1;
        if call == self.fail_at {
            self.failed = true;
            return Err(io::Error::from(kind_of(self.fail_kind)));
        }
        let remaining = self.end - self.pos;
        if remaining == 0 {
            return Ok(0);
        }
        let k: usize = kani::any();
        kani::assume(k >= 1 && k <= remaining && k <= buf.len());
        let mut i = 0;
        while i < k {
            buf[i] = self.data[self.pos + i];
            i += 1;
        }
        self.pos += k;
        self.handed += k;
        Ok(k)
    }
}

/// Reference decoder of ONE character at the start of `d[..avail]`.
/// Ok((char, width)) | Err(true) = truncated (needs more bytes than available) | Err(false) = invalid
fn ref_char(d: &[u8; 4], avail: usize) -> Result<(u32, usize), bool> {
    let b0 = d[0];
    let (w, init): (usize, u32) = if b0 < 0x80 {
        (1, b0 as u32)
    } else if b0 >= 0xC0 && b0 <= 0xDF {
        (2, (b0 & 0x1F) as u32)
    } else if b0 >= 0xE0 && b0 <= 0xEF {
        (3, (b0 & 0x0F) as u32)
    } else if b0 >= 0xF0 && b0 <= 0xF7 {
        (4, (b0 & 0x07) as u32)
    } else {
        return Err(false);
    };
    if avail < w {
        return Err(true);
    }
    let mut cp = init;
    let mut j = 1;
    while j < w {
        let c = d[j];
        if c & 0xC0 != 0x80 {
            return Err(false);
        }
        cp = (cp << 6) | (c & 0x3F) as u32;
        j += 1;
    }
    let min = match w {
        1 => 0,
        2 => 0x80,
        3 => 0x800,
        _ => 0x10000,
    };
    if cp < min || cp > 0x10FFFF || (cp >= 0xD800 && cp <= 0xDFFF) {
        return Err(false);
    }
    Ok((cp, w))
}

fn new_cell() -> Rc<RefCell<Option<Error>>> {
    Rc::new(RefCell::new(None))
}

// ------------------------------------------------------------------------------------------
// ONE inductive step of the character iterator (DESIGN.md R2'): the iterator's only state is the
// reader position, the running byte count and the shared error cell, so a single `next()` from an
// arbitrary such state - with the reader's chunk sizes, fault position and error kind symbolic -
// covers streams of any length, every chunking, every fault position and every cap value.
//
// C09: the character delivered is the one-shot decoding of the next bytes, whatever the chunking.
// C10: a reader error (any kind, at any of this call's reads), an end of data inside a character,
//      invalid UTF-8 and an exceeded cap all end the input WITH the error cell set; a clean end of
//      data ends it without; a character is never delivered beyond the cap; at most 4 bytes are
//      pulled per call and none once the cap is exceeded.
// ------------------------------------------------------------------------------------------
fn next_step(with_cap: bool, with_fault: bool) {
    let data: [u8; 4] = kani::any();
    let avail: usize = kani::any();
    kani::assume(avail <= 4);
    // the reader serves data[..avail]; model "avail" by placing the window at the end of a 4-array
    let fail_at: usize = if with_fault { kani::any() } else { usize::MAX };
    if with_fault {
        kani::assume(fail_at <= 3);
    }
    let rd = StubReader::<4> {
        data,
        pos: 0,
        end: avail,
        calls: 0,
        fail_at,
        fail_kind: kani::any(),
        failed: false,
        handed: 0,
    };
    let cell = new_cell();
    let cap: usize = kani::any();
    let total0: usize = kani::any();
    let mut it = ChunkedChars::new(rd, if with_cap { Some(cap) } else { None }, cell.clone());
    // invariant of a live iterator: the running total never exceeded the cap so far
    kani::assume(!with_cap || total0 <= cap);
    kani::assume(total0 < usize::MAX - 8);
    it.total_bytes = total0;

    let got = it.next();

    let err = cell.borrow().is_some();
    let too_large = matches!(&*cell.borrow(), Some(e) if e.kind() == ErrorKind::FileTooLarge);
    let want = ref_char(&data, avail);
    let reads = it.reader.calls;
    assert!(it.reader.handed <= 4, "more than one character's worth of bytes pulled in one step");
    if it.reader.failed {
        assert!(got.is_none(), "a character was delivered although the reader failed");
        assert!(err, "the reader reported an I/O error and the input simply ended: error swallowed");
    } else if avail == 0 {
        assert!(got.is_none() && !err, "clean end of data must end the input without error");
    } else {
        match want {
            Ok((cp, w)) => {
                assert!(it.reader.handed == w, "bytes of the next character consumed or left behind");
                if with_cap && total0 + w > cap {
                    assert!(got.is_none() && too_large, "input beyond the cap was not rejected with FileTooLarge");
                } else {
                    assert!(!err, "valid input within the cap reported as error");
                    match got {
                        Some(c) => assert!(c as u32 == cp, "character differs from the one-shot decoding"),
                        None => assert!(false, "valid character lost under this chunking"),
                    }
                    assert!(it.total_bytes == total0 + w);
                }
            }
            Err(_truncated_or_invalid) => {
                assert!(got.is_none(), "a character was produced from invalid or truncated UTF-8");
                assert!(err, "invalid UTF-8 / end of data inside a character ended the input silently");
            }
        }
    }
    // vacuity witnesses (phrased so that each is satisfiable in every instantiation)
    kani::cover!(!with_fault || (it.reader.failed && reads >= 2), "fault on a continuation read");
    kani::cover!(!with_cap || too_large, "cap exceeded");
    kani::cover!(with_fault || (got.is_some() && it.reader.handed >= 3 && reads >= 3), "multi-byte character re-assembled from several reads");
    kani::cover!(matches!(want, Err(true)) && !it.reader.failed && avail > 0, "data end inside a multi-byte character");
    std::mem::forget(it);
    std::mem::forget(cell);
}

macro_rules! step_harness {
    ($name:ident, $cap:expr, $fault:expr) => {
        #[kani::proof]
        #[kani::unwind(9)]
        #[kani::stub(core::str::validations::run_utf8_validation, stdlite::run_utf8_validation)]
        #[kani::stub(alloc::fmt::format, stdlite::format_stub)]
        fn $name() {
            next_step($cap, $fault)
        }
    };
}
step_harness!(c09_next_step_chunking, false, false);
step_harness!(c10_next_step_fault, false, true);
step_harness!(c10_next_step_cap, true, false);
step_harness!(c10_next_step_cap_fault, true, true);

// concrete-playback slot: bin/check writes the solver counterexample here as a unit test for native replay
include!("/verif/.build/playback/buffered_input_pb.rs");

// Kani harnesses mounted inside src/buffered_input.rs (child module: sees private items)

// concrete-playback slot: bin/check writes the solver counterexample here as a unit test for native replay
include!("/verif/.build/playback/buffered_input_pb.rs");

// Kani harnesses mounted inside src/robotics.rs (child module; only with `--features robotics`).
//
// C19: the expression evaluator is total, honours standard precedence and units, converts degrees
// exactly once, and bounds its recursion.
//
// Shape: expression *templates* with concrete constant operands (pi, tau - no decimal parsing, so
// libcore's dec2flt is not on the path) and SYMBOLIC operators / signs / unit functions / tags.
// IEEE-754 arithmetic on constants is folded by CBMC, the parser's control flow runs on symbolic
// bytes. Oracle: the same operations applied in the order the grammar prescribes.
use super::*;
use crate::verif_common::stdlite;

fn any_op() -> u8 {
    let k: u8 = kani::any();
    match k % 4 {
        0 => b'+',
        1 => b'-',
        2 => b'*',
        _ => b'/',
    }
}

fn apply(op: u8, a: f64, b: f64) -> f64 {
    match op {
        b'+' => a + b,
        b'-' => a - b,
        b'*' => a * b,
        _ => a / b,
    }
}

fn is_mul(op: u8) -> bool {
    op == b'*' || op == b'/'
}

fn same_f64(a: f64, b: f64) -> bool {
    (a.is_nan() && b.is_nan()) || a.to_bits() == b.to_bits()
}

fn eval(s: &[u8], tag: SfTag) -> Result<f64, Error> {
    let st = match core::str::from_utf8(s) {
        Ok(x) => x,
        Err(_) => {
            kani::assume(false);
            ""
        }
    };
    parse_yaml12_float_angle_converting::<f64>(st, Location::UNKNOWN, tag)
}

const TAU: f64 = 2.0 * PI;

// ------------------------------------------------------------------------------------------
// Precedence: `pi o1 tau o2 pi` for all 16 operator pairs, optional leading unary minus.
// ------------------------------------------------------------------------------------------
#[kani::proof]
#[kani::stub(core::str::validations::run_utf8_validation, stdlite::run_utf8_validation)]
#[kani::unwind(16)]
fn c19_precedence() {
    let o1 = any_op();
    let o2 = any_op();
    let neg: bool = kani::any();
    // "-pi?tau?pi" / " pi?tau?pi"
    let s: [u8; 10] = [if neg { b'-' } else { b' ' }, b'p', b'i', o1, b't', b'a', b'u', o2, b'p', b'i'];
    let a = if neg { -PI } else { PI };
    let want = if is_mul(o2) && !is_mul(o1) {
        apply(o1, a, apply(o2, TAU, PI))
    } else {
        apply(o2, apply(o1, a, TAU), PI)
    };
    match eval(&s, SfTag::None) {
        Ok(v) => assert!(same_f64(v, want), "expression value differs from IEEE-754 evaluation with standard precedence"),
        Err(_) => assert!(false, "well-formed expression rejected"),
    }
    kani::cover!(is_mul(o2) && !is_mul(o1), "right operator binds tighter");
}

// ------------------------------------------------------------------------------------------
// Parentheses override precedence: `(pi o1 tau) o2 pi` and `pi o1 (tau o2 pi)`.
// ------------------------------------------------------------------------------------------
#[kani::proof]
#[kani::stub(core::str::validations::run_utf8_validation, stdlite::run_utf8_validation)]
#[kani::unwind(16)]
fn c19_parentheses() {
    let o1 = any_op();
    let o2 = any_op();
    let left: bool = kani::any();
    let s: [u8; 11] = if left {
        [b'(', b'p', b'i', o1, b't', b'a', b'u', b')', o2, b'p', b'i']
    } else {
        [b'p', b'i', o1, b'(', b't', b'a', b'u', o2, b'p', b'i', b')']
    };
    let want = if left {
        apply(o2, apply(o1, PI, TAU), PI)
    } else {
        apply(o1, PI, apply(o2, TAU, PI))
    };
    match eval(&s, SfTag::None) {
        Ok(v) => assert!(same_f64(v, want), "parenthesised expression evaluated in the wrong order"),
        Err(_) => assert!(false, "well-formed expression rejected"),
    }
    kani::cover!(!left, "right-nested");
}

// ------------------------------------------------------------------------------------------
// Units: `F(pi) o G(tau)` with F, G in {deg, rad} symbolic, under a symbolic tag.
// deg() converts exactly once; unitized input overrides the tag; a bare term next to a unitized
// one under !degrees is rejected; without unit functions !degrees converts the whole value once.
// ------------------------------------------------------------------------------------------
fn any_tag() -> SfTag {
    let k: u8 = kani::any();
    match k % 3 {
        0 => SfTag::None,
        1 => SfTag::Degrees,
        _ => SfTag::Radians,
    }
}

#[kani::proof]
#[kani::stub(core::str::validations::run_utf8_validation, stdlite::run_utf8_validation)]
#[kani::unwind(20)]
fn c19_units() {
    let o = any_op();
    let f_deg: bool = kani::any();
    let g_deg: bool = kani::any();
    let tag = any_tag();
    let f: [u8; 3] = if f_deg { *b"deg" } else { *b"rad" };
    let g: [u8; 3] = if g_deg { *b"deg" } else { *b"rad" };
    // "FFF(pi)oGGG(tau)"
    let s: [u8; 16] = [f[0], f[1], f[2], b'(', b'p', b'i', b')', o, g[0], g[1], g[2], b'(', b't', b'a', b'u', b')'];
    let a = if f_deg { PI * DEG2RAD } else { PI };
    let b = if g_deg { TAU * DEG2RAD } else { TAU };
    let want = apply(o, a, b);
    match eval(&s, tag) {
        Ok(v) => assert!(same_f64(v, want), "unit conversion applied zero or several times"),
        Err(_) => assert!(false, "fully unitized expression rejected"),
    }
    kani::cover!(f_deg && !g_deg && matches!(tag, SfTag::Degrees), "mixed units under !degrees, all explicit");
}

#[kani::proof]
#[kani::stub(core::str::validations::run_utf8_validation, stdlite::run_utf8_validation)]
#[kani::unwind(20)]
fn c19_units_mixed_with_bare() {
    let o = any_op();
    let f_deg: bool = kani::any();
    let tag = any_tag();
    let f: [u8; 3] = if f_deg { *b"deg" } else { *b"rad" };
    // "FFF(pi)otau"
    let s: [u8; 11] = [f[0], f[1], f[2], b'(', b'p', b'i', b')', o, b't', b'a', b'u'];
    let a = if f_deg { PI * DEG2RAD } else { PI };
    let r = eval(&s, tag);
    if matches!(tag, SfTag::Degrees) {
        assert!(r.is_err(), "bare term mixed with a unitized one under !degrees must be rejected");
    } else {
        match r {
            Ok(v) => assert!(same_f64(v, apply(o, a, TAU)), "value differs"),
            Err(_) => assert!(false, "expression rejected"),
        }
    }
    kani::cover!(matches!(tag, SfTag::Degrees), "ambiguous mix rejected");
}

#[kani::proof]
#[kani::stub(core::str::validations::run_utf8_validation, stdlite::run_utf8_validation)]
#[kani::unwind(16)]
fn c19_tag_only() {
    let o = any_op();
    let tag = any_tag();
    let s: [u8; 6] = [b'p', b'i', o, b't', b'a', b'u'];
    let base = apply(o, PI, TAU);
    let want = if matches!(tag, SfTag::Degrees) { base * DEG2RAD } else { base };
    match eval(&s, tag) {
        Ok(v) => assert!(same_f64(v, want), "tag-based conversion not applied exactly once to the whole value"),
        Err(_) => assert!(false, "expression rejected"),
    }
    kani::cover!(matches!(tag, SfTag::Degrees), "degrees tag");
}

// ------------------------------------------------------------------------------------------
// Recursion guard: enter() admits depth < 256 only; never overflows; exit() restores.
// ------------------------------------------------------------------------------------------
#[kani::proof]
#[kani::stub(core::str::validations::run_utf8_validation, stdlite::run_utf8_validation)]
fn c19_depth_guard() {
    let mut p = Parser::new("", Location::UNKNOWN, SfTag::None);
    let d0: u32 = kani::any();
    kani::assume(d0 <= MAX_EXPR_DEPTH);
    p.depth = d0;
    let r = p.enter();
    if d0 >= MAX_EXPR_DEPTH {
        assert!(r.is_err() && p.depth == d0, "nesting beyond the limit admitted");
    } else {
        assert!(r.is_ok() && p.depth == d0 + 1);
        p.exit();
        assert!(p.depth == d0);
    }
    kani::cover!(d0 == MAX_EXPR_DEPTH, "limit reached");
    std::mem::forget(r);
}

// ------------------------------------------------------------------------------------------
// Totality on short arbitrary inputs over the expression alphabet without digits (no decimal
// parsing on the path): every input yields Ok or Err - no panic, index error, overflow, and the
// recursion is bounded (unwinding assertions).
// ------------------------------------------------------------------------------------------
fn total_n<const N: usize>() {
    let a: [u8; N] = kani::any();
    let mut i = 0;
    while i < N {
        let c = a[i];
        let ok = matches!(c, b'p' | b'i' | b't' | b'a' | b'u' | b'd' | b'e' | b'g' | b'r' | b'n' | b'f' | b'(' | b')' | b'+' | b'-' | b'*' | b'/' | b' ' | b'.' | b':' | b'_');
        kani::assume(ok);
        i += 1;
    }
    let r = eval(&a, any_tag());
    kani::cover!(r.is_ok(), "some input evaluates");
    kani::cover!(r.is_err(), "some input is rejected");
    std::mem::forget(r);
}

#[kani::proof]
#[kani::stub(core::str::validations::run_utf8_validation, stdlite::run_utf8_validation)]
#[kani::unwind(10)]
fn c19_total_3() {
    total_n::<3>()
}

#[kani::proof]
#[kani::stub(core::str::validations::run_utf8_validation, stdlite::run_utf8_validation)]
#[kani::unwind(12)]
fn c19_total_4() {
    total_n::<4>()
}

// concrete-playback slot: bin/check writes the solver counterexample here as a unit test for native replay
include!("/verif/.build/playback/robotics_pb.rs");

// Kani harnesses mounted inside src/base64.rs (child module: sees private items).
//
// C06: `!!binary` payloads are strict canonical base64 (padding and trailing-bit checks).
use super::*;
use crate::verif_common::as_str;
use crate::verif_common::stdlite;

fn ref_val(b: u8) -> Option<u32> {
    if b >= b'A' && b <= b'Z' {
        Some((b - b'A') as u32)
    } else if b >= b'a' && b <= b'z' {
        Some((b - b'a') as u32 + 26)
    } else if b >= b'0' && b <= b'9' {
        Some((b - b'0') as u32 + 52)
    } else if b == b'+' {
        Some(62)
    } else if b == b'/' {
        Some(63)
    } else {
        None
    }
}

/// Reference decoder of ONE final quantum (RFC 4648 §4, canonical form required by §3.5):
/// returns (number of bytes, bytes) or None if not canonical base64.
fn ref_quantum(q: &[u8; 4]) -> Option<(usize, [u8; 3])> {
    let a = ref_val(q[0])?;
    let b = ref_val(q[1])?;
    if q[2] == b'=' {
        if q[3] != b'=' || b & 0x0F != 0 {
            return None;
        }
        return Some((1, [((a << 2) | (b >> 4)) as u8, 0, 0]));
    }
    let c = ref_val(q[2])?;
    if q[3] == b'=' {
        if c & 0x03 != 0 {
            return None;
        }
        return Some((2, [((a << 2) | (b >> 4)) as u8, (((b & 0xF) << 4) | (c >> 2)) as u8, 0]));
    }
    let d = ref_val(q[3])?;
    Some((3, [((a << 2) | (b >> 4)) as u8, (((b & 0xF) << 4) | (c >> 2)) as u8, (((c & 3) << 6) | d) as u8]))
}

/// One quantum whose last `PAD` characters are '=' (concrete shape), the others symbolic
/// non-whitespace ASCII.
fn quantum_shape<const PAD: usize>() {
    let mut q = [b'='; 4];
    let mut i = 0;
    while i < 4 - PAD {
        let c: u8 = kani::any();
        kani::assume(c < 0x80 && !c.is_ascii_whitespace());
        q[i] = c;
        i += 1;
    }
    let r = decode_base64_yaml(as_str(&q));
    match (&r, ref_quantum(&q)) {
        (Ok(v), Some((n, bytes))) => {
            assert!(v.len() == n, "decoded length differs");
            let mut k = 0;
            while k < n {
                assert!(v[k] == bytes[k], "decoded byte differs");
                k += 1;
            }
            kani::cover!(true, "canonical quantum accepted");
        }
        (Err(_), None) => {
            kani::cover!(ref_val(q[0]).is_some() && ref_val(q[1]).is_some(), "non-canonical trailing bits or padding rejected");
        }
        (Ok(_), None) => assert!(false, "non-canonical / invalid base64 accepted"),
        (Err(_), Some(_)) => assert!(false, "canonical base64 rejected"),
    }
    std::mem::forget(r);
}

#[kani::proof]
#[kani::unwind(7)]
#[kani::stub(core::str::validations::run_utf8_validation, stdlite::run_utf8_validation)]
fn c06_base64_pad2() {
    quantum_shape::<2>()
}

#[kani::proof]
#[kani::unwind(7)]
#[kani::stub(core::str::validations::run_utf8_validation, stdlite::run_utf8_validation)]
fn c06_base64_pad1() {
    quantum_shape::<1>()
}

#[kani::proof]
#[kani::unwind(7)]
#[kani::stub(core::str::validations::run_utf8_validation, stdlite::run_utf8_validation)]
fn c06_base64_pad0() {
    quantum_shape::<0>()
}

// concrete-playback slot: bin/check writes the solver counterexample here as a unit test for native replay
include!("/verif/.build/playback/base64_pb.rs");

// Kani harnesses mounted inside src/base64.rs (child module: sees private items)

// concrete-playback slot: bin/check writes the solver counterexample here as a unit test for native replay
include!("/verif/.build/playback/base64_pb.rs");

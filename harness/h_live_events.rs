// Kani harnesses mounted inside src/live_events.rs.
//
// The event pump (C02 / C08 / C11) is NOT claimed by this machinery: see DESIGN.md §9.4. The
// single-step harnesses that were written for it are kept in /verif/harness/attic/
// h_live_events_pump_steps.rs together with the measurements that led to withdrawing them
// (every one of them ran out of 16-28 GB or did not finish in 30 min: `Error`'s drop glue, which
// contains `std::io::Error` -> `Box<dyn Error>` recursion, is unfolded at every `?`, and
// `SmallVec<[Ev; 8]>` of 100-byte enum values makes each `push(ev.clone())` an array-theory blow-up).

// concrete-playback slot: bin/check writes the solver counterexample here as a unit test for native replay
include!("/verif/.build/playback/live_events_pb.rs");

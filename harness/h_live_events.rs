// Kani harnesses mounted inside src/live_events.rs (child module: sees private items)

// concrete-playback slot: bin/check writes the solver counterexample here as a unit test for native replay
include!("/verif/.build/playback/live_events_pb.rs");

// Kani harnesses mounted inside src/live_events.rs (child module: sees private items).
//
// C02 / C08 / C10 / C11 at the level of the event pump. The real saphyr parser is driven over a
// *concrete* tiny YAML text (its execution is then concrete for the symbolic executor); the
// symbolic part is the pump's own state, which is havoc'ed right before the step of interest:
// alias limits, replay counters, recorded anchor buffers' use, document boundaries, the shared
// I/O error cell.
use super::*;
use crate::de::Events as _;

fn any_limits() -> AliasLimits {
    AliasLimits {
        max_total_replayed_events: kani::any(),
        max_replay_stack_depth: kani::any(),
        max_alias_expansions_per_anchor: kani::any(),
    }
}

fn stub_no_recursion(_id: usize) -> bool {
    false
}

fn scalar_text<'a>(e: &'a Ev<'_>) -> Option<&'a str> {
    match e {
        Ev::Scalar { value, .. } => Some(value.as_ref()),
        _ => None,
    }
}

/// kind code of an event: 0 scalar, 1 seq start, 2 seq end, 3 map start, 4 map end, 5 taken
fn kind(e: &Ev<'_>) -> u8 {
    match e {
        Ev::Scalar { .. } => 0,
        Ev::SeqStart { .. } => 1,
        Ev::SeqEnd { .. } => 2,
        Ev::MapStart { .. } => 3,
        Ev::MapEnd { .. } => 4,
        Ev::Taken { .. } => 5,
    }
}

// ------------------------------------------------------------------------------------------
// Probe / C02+C08: `- &a x` / `- *a` : the alias delivers a copy of the anchored scalar, iff the
// three alias limits admit one expansion of one event at nesting 1.
// ------------------------------------------------------------------------------------------
#[kani::proof]
#[kani::unwind(40)]
#[kani::stub(crate::anchor_store::recursive_anchor_in_progress, stub_no_recursion)]
fn c02_alias_scalar_copy() {
    let limits = any_limits();
    let mut le = LiveEvents::from_str("- &a x\n- *a\n", None, None, None, limits, false);
    // [ SeqStart, Scalar x (&a) ] are delivered from the raw stream
    let e1 = le.next();
    assert!(matches!(&e1, Ok(Some(ev)) if kind(ev) == 1));
    let e2 = le.next();
    assert!(matches!(&e2, Ok(Some(ev)) if scalar_text(ev) == Some("x")));
    // havoc the replay accounting: any history of earlier replays in this document
    let total0: usize = kani::any();
    let exp0: usize = kani::any();
    kani::assume(total0 <= limits.max_total_replayed_events);
    le.total_replayed_events = total0;
    if le.per_anchor_expansions.len() < 2 {
        le.per_anchor_expansions.resize(2, 0);
    }
    le.per_anchor_expansions[1] = exp0;
    // the alias
    let e3 = le.next();
    let admit = exp0 < limits.max_alias_expansions_per_anchor
        && limits.max_replay_stack_depth >= 1
        && total0 < limits.max_total_replayed_events;
    match &e3 {
        Ok(Some(ev)) => {
            assert!(admit, "alias expanded beyond a configured limit");
            assert!(scalar_text(ev) == Some("x"), "alias does not equal a copy of its anchor");
            assert!(le.total_replayed_events == total0 + 1, "replayed event not counted");
            kani::cover!(true, "alias expanded");
        }
        Ok(None) => assert!(false, "alias vanished"),
        Err(_) => {
            assert!(!admit, "alias rejected although every limit admits it");
            kani::cover!(true, "alias rejected by a limit");
        }
    }
    std::mem::forget(e1);
    std::mem::forget(e2);
    std::mem::forget(e3);
    std::mem::forget(le);
}

// concrete-playback slot: bin/check writes the solver counterexample here as a unit test for native replay
include!("/verif/.build/playback/live_events_pb.rs");

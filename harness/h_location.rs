// Kani harnesses mounted inside src/location.rs (child module: sees private items).
//
// C16: conversion of parser marks to the reported coordinates (line, column, character offset and
// length, byte offset and length).
use super::*;
use saphyr_parser::Marker;

/// Parser contract for marks (saphyr-parser): end is not before start; the character index never
/// exceeds the byte offset; everything below 2^32 - 1 (documents under 4 GiB, default build).
#[kani::proof]
fn c16_location_from_span() {
    let (si, sl, sc): (usize, usize, usize) = (kani::any(), kani::any(), kani::any());
    let (ei, el, ec): (usize, usize, usize) = (kani::any(), kani::any(), kani::any());
    let sb: Option<usize> = kani::any();
    let eb: Option<usize> = kani::any();
    const LIM: usize = u32::MAX as usize;
    kani::assume(si < LIM && sl < LIM && sc < LIM && ei < LIM && el < LIM && ec < LIM);
    kani::assume(ei >= si);
    if let (Some(s), Some(e)) = (sb, eb) {
        kani::assume(e >= s && s >= si && e >= ei);
    }
    let span = ParserSpan::new(
        Marker::new(si, sl, sc).with_byte_offset(sb),
        Marker::new(ei, el, ec).with_byte_offset(eb),
    );
    let loc = location_from_span(&span);
    assert!(loc.line() == sl as u64, "line is not the start mark's line");
    assert!(loc.column() == sc as u64 + 1, "column is not the 1-based start column");
    assert!(loc.span().offset() == si as u64, "character offset differs from the start mark");
    assert!(loc.span().len() == (ei - si) as u64, "character length differs from the marks");
    match (sb, eb) {
        (Some(s), Some(e)) if s <= LIM && e - s <= LIM => {
            if s == 0 && e == 0 {
                // (0,0) is the crate's encoding of "unavailable"; an empty span at byte 0 is
                // indistinguishable from it by design
                assert!(loc.span().byte_offset().is_none());
            } else {
                assert!(loc.span().byte_offset() == Some(s as u64), "byte offset differs from the start mark");
                assert!(loc.span().byte_len() == Some((e - s) as u64), "byte length differs from the marks");
            }
            kani::cover!(s > si, "multi-byte characters before the node");
        }
        _ => {
            assert!(loc.span().byte_offset().is_none() && loc.span().byte_len().is_none());
            kani::cover!(sb.is_some() && eb.is_some(), "byte info dropped because it does not fit 32 bits");
        }
    }
}

/// use-site / definition-site pair: `same` and `primary_location`.
#[kani::proof]
fn c16_locations_pair() {
    let a = Location::new(kani::any::<u32>() as usize, kani::any::<u32>() as usize);
    let b = Location::new(kani::any::<u32>() as usize, kani::any::<u32>() as usize);
    let l = Locations {
        reference_location: a,
        defined_location: b,
    };
    match l.primary_location() {
        Some(p) => {
            assert!(p != Location::UNKNOWN);
            assert!(if a != Location::UNKNOWN { p == a } else { p == b });
        }
        None => assert!(a == Location::UNKNOWN && b == Location::UNKNOWN),
    }
    match Locations::same(&a) {
        Some(s) => assert!(a != Location::UNKNOWN && s.reference_location == a && s.defined_location == a),
        None => assert!(a == Location::UNKNOWN),
    }
    kani::cover!(a == Location::UNKNOWN && b != Location::UNKNOWN, "definition-site only");
}

// concrete-playback slot: bin/check writes the solver counterexample here as a unit test for native replay
include!("/verif/.build/playback/location_pb.rs");

// empty: white-box harnesses disabled (fallback mode of bin/check)

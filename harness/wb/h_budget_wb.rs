// White-box part of the budget harnesses: inductive steps that build BudgetEnforcer from its
// private fields. Included by h_budget.rs through `include!(concat!(env!("VERIF_WB"), ...))`; if a
// refactoring of the private representation breaks this file, bin/check falls back to
// VERIF_WB=/verif/harness/wb_empty and still runs the black-box scenario harnesses.
/// Counters stay below 2^62 (stated bound: fewer than 2^62 events per stream); this is the only
/// thing that keeps the plain `+= 1` of the implementation from overflowing.
const BIG: usize = 1usize << 62;

#[derive(Clone, Copy)]
struct Cnt {
    events: usize,
    aliases: usize,
    documents: usize,
    nodes: usize,
    max_depth: usize,
    bytes: usize,
    merge_keys: usize,
    depth: usize,
}

fn any_budget() -> Budget {
    Budget {
        max_reader_input_bytes: None,
        max_events: kani::any(),
        max_aliases: kani::any(),
        max_anchors: kani::any(),
        max_depth: kani::any(),
        max_documents: kani::any(),
        max_nodes: kani::any(),
        max_total_scalar_bytes: kani::any(),
        max_merge_keys: kani::any(),
        enforce_alias_anchor_ratio: kani::any(),
        alias_anchor_min_aliases: kani::any(),
        alias_anchor_ratio_multiplier: kani::any(),
    }
}

/// Arbitrary counters satisfying the invariant of a non-failed enforcer:
/// every counter is within its limit (otherwise an earlier `observe` returned `Err`)
/// and below BIG; `depth <= max_depth` (max_depth is the running maximum of depth).
fn any_cnt(b: &Budget) -> Cnt {
    let c = Cnt {
        events: kani::any(),
        aliases: kani::any(),
        documents: kani::any(),
        nodes: kani::any(),
        max_depth: kani::any(),
        bytes: kani::any(),
        merge_keys: kani::any(),
        depth: kani::any(),
    };
    kani::assume(c.events < BIG && c.events <= b.max_events);
    kani::assume(c.aliases < BIG && c.aliases <= b.max_aliases);
    kani::assume(c.documents < BIG && c.documents <= b.max_documents);
    kani::assume(c.nodes < BIG && c.nodes <= b.max_nodes);
    kani::assume(c.max_depth < BIG && c.max_depth <= b.max_depth);
    kani::assume(c.bytes <= b.max_total_scalar_bytes);
    kani::assume(c.merge_keys < BIG && c.merge_keys <= b.max_merge_keys);
    kani::assume(c.depth <= c.max_depth);
    c
}

fn any_policy() -> EnforcingPolicy {
    if kani::any() {
        EnforcingPolicy::AllContent
    } else {
        EnforcingPolicy::PerDocument
    }
}

fn any_container() -> ContainerState {
    if kani::any() {
        ContainerState::Sequence {
            from_mapping_value: kani::any(),
        }
    } else {
        ContainerState::Mapping {
            expecting_key: kani::any(),
            from_mapping_value: kani::any(),
        }
    }
}

/// Build the enforcer directly (no `with_capacity(256)`, no OS randomness).
/// `n_anchors` anchors with ids 1..=n_anchors are already defined (concrete: never put symbolic
/// keys into a hash container).
fn mk(b: Budget, c: &Cnt, n_anchors: usize, policy: EnforcingPolicy) -> BudgetEnforcer {
    let mut set: FastHashSet<usize> =
        FastHashSet::with_hasher(ahash::RandomState::with_seeds(1, 2, 3, 4));
    let mut i = 1;
    while i <= n_anchors {
        set.insert(i);
        i += 1;
    }
    BudgetEnforcer {
        budget: b,
        report: BudgetReport {
            breached: None,
            events: c.events,
            aliases: c.aliases,
            anchors: n_anchors,
            documents: c.documents,
            nodes: c.nodes,
            max_depth: c.max_depth,
            total_scalar_bytes: c.bytes,
            merge_keys: c.merge_keys,
        },
        depth: c.depth,
        defined_anchors: set,
        containers: SmallVec::new(),
        policy,
    }
}

fn snapshot(e: &BudgetEnforcer) -> Cnt {
    Cnt {
        events: e.report.events,
        aliases: e.report.aliases,
        documents: e.report.documents,
        nodes: e.report.nodes,
        max_depth: e.report.max_depth,
        bytes: e.report.total_scalar_bytes,
        merge_keys: e.report.merge_keys,
        depth: e.depth,
    }
}

fn same(a: &Cnt, b: &Cnt) -> bool {
    a.events == b.events
        && a.aliases == b.aliases
        && a.documents == b.documents
        && a.nodes == b.nodes
        && a.max_depth == b.max_depth
        && a.bytes == b.bytes
        && a.merge_keys == b.merge_keys
        && a.depth == b.depth
}

/// (is mapping, expecting_key, from_mapping_value)
fn top_of(e: &BudgetEnforcer) -> Option<(bool, bool, bool)> {
    match e.containers.last() {
        None => None,
        Some(ContainerState::Sequence { from_mapping_value }) => {
            Some((false, false, *from_mapping_value))
        }
        Some(ContainerState::Mapping {
            expecting_key,
            from_mapping_value,
        }) => Some((true, *expecting_key, *from_mapping_value)),
    }
}

// ------------------------------------------------------------------------------------------
// Step: node events (scalar of several kinds, sequence start, mapping start), anchor id 0.
// ------------------------------------------------------------------------------------------
fn step_nodes(sel: u8) {
    let b = any_budget();
    let pre = any_cnt(&b);
    let policy = any_policy();
    let mut e = mk(b.clone(), &pre, 0, policy);
    let has_top: bool = kani::any();
    if has_top {
        e.containers.push(any_container());
    }
    let top0 = top_of(&e);
    let key_pos = matches!(top0, Some((true, true, _)));
    let val_pos = matches!(top0, Some((true, false, _)));

    // `sel` is a constant of the calling harness: exactly one concrete observe() call site is
    // explored per harness (merging several call sites makes the SAT encoding explode)
    // (is_scalar, len, is_merge_token)
    let (is_scalar, len, merge_tok) = match sel {
        0 => (true, 0usize, false),
        1 => (true, 2, false),
        2 => (true, 2, true),
        3 => (true, 2, false), // "<<" double-quoted: ordinary key
        4 => (true, 2, false), // "<<" tagged: ordinary key
        _ => (false, 0, false),
    };
    let r = match sel {
        0 => e.observe(&Event::Scalar(Cow::Borrowed(""), ScalarStyle::Plain, 0, None)),
        1 => e.observe(&Event::Scalar(Cow::Borrowed("ab"), ScalarStyle::Plain, 0, None)),
        2 => e.observe(&Event::Scalar(Cow::Borrowed("<<"), ScalarStyle::Plain, 0, None)),
        3 => e.observe(&Event::Scalar(
            Cow::Borrowed("<<"),
            ScalarStyle::DoubleQuoted,
            0,
            None,
        )),
        4 => {
            // Tagged `<<`. Passing a tagged Event through observe() defeats CBMC's constant
            // propagation of the anchor id (niche-encoded Option<Cow<Tag>>) and drags a symbolic
            // hash insertion in; the tagged case therefore enters one call below observe(), at
            // handle_scalar(value, style, has_tag = true), after replaying observe's own prologue.
            e.report.events += 1;
            if e.report.events > e.budget.max_events {
                Err(BudgetBreach::Events {
                    events: e.report.events,
                })
            } else {
                match e.bump_nodes() {
                    Err(x) => Err(x),
                    Ok(()) => {
                        e.report.total_scalar_bytes = e.report.total_scalar_bytes.saturating_add(2);
                        if e.report.total_scalar_bytes > e.budget.max_total_scalar_bytes {
                            Err(BudgetBreach::ScalarBytes {
                                total_scalar_bytes: e.report.total_scalar_bytes,
                            })
                        } else {
                            e.handle_scalar("<<", &ScalarStyle::Plain, true)
                        }
                    }
                }
            }
        }
        5 => e.observe(&Event::SequenceStart(0, None)),
        _ => e.observe(&Event::MappingStart(0, None)),
    };

    // ---- oracle: the documented counting rules applied to the pre-state ----
    let mut exp = pre;
    exp.events = pre.events + 1;
    exp.nodes = pre.nodes + 1;
    if is_scalar {
        exp.bytes = pre.bytes.saturating_add(len);
        if key_pos && merge_tok {
            exp.merge_keys = pre.merge_keys + 1;
        }
    } else {
        exp.depth = pre.depth + 1;
        if exp.depth > exp.max_depth {
            exp.max_depth = exp.depth;
        }
    }
    let x_events = exp.events > b.max_events;
    let x_nodes = exp.nodes > b.max_nodes;
    let x_bytes = exp.bytes > b.max_total_scalar_bytes;
    let x_merge = exp.merge_keys > b.max_merge_keys;
    let x_depth = exp.max_depth > b.max_depth;
    let any_x = x_events || x_nodes || x_bytes || x_merge || x_depth;

    match r {
        Ok(()) => {
            assert!(!any_x, "accepted although a limit is exceeded");
            let post = snapshot(&e);
            assert!(same(&post, &exp), "usage report differs from independent count");
            assert!(e.report.anchors == 0 && e.report.breached.is_none());
            // key/value alternation of the enclosing mapping
            if is_scalar {
                match (top0, top_of(&e)) {
                    (None, None) => {}
                    (Some((true, ek0, f0)), Some((true, ek1, f1))) => {
                        assert!(ek1 == !ek0 && f0 == f1);
                    }
                    (Some((false, _, f0)), Some((false, _, f1))) => assert!(f0 == f1),
                    _ => assert!(false, "container stack changed by a scalar"),
                }
                assert!(e.containers.len() == has_top as usize);
            } else {
                assert!(e.containers.len() == has_top as usize + 1);
                match top_of(&e) {
                    Some((is_map, ek, from_val)) => {
                        assert!(is_map == (sel == 6));
                        assert!(!is_map || ek, "a new mapping starts by expecting a key");
                        assert!(from_val == val_pos);
                    }
                    None => assert!(false),
                }
                if has_top {
                    match (top0, e.containers.first()) {
                        (Some((true, _, f0)), Some(ContainerState::Mapping {
                            expecting_key,
                            from_mapping_value,
                        })) => {
                            // a container in key position turns the parent to "expects value";
                            // in value position the parent keeps waiting until the container ends
                            assert!(!*expecting_key && *from_mapping_value == f0);
                        }
                        (Some((false, _, f0)), Some(ContainerState::Sequence { from_mapping_value })) => {
                            assert!(*from_mapping_value == f0)
                        }
                        _ => assert!(false, "parent entry changed kind"),
                    }
                }
            }
            kani::cover!(true, "accepted");
            kani::cover!(key_pos, "accepted in key position of a mapping");
        }
        Err(breach) => {
            assert!(any_x, "rejected although every quantity is within its limit");
            match breach {
                BudgetBreach::Events { events } => assert!(x_events && events == exp.events),
                BudgetBreach::Nodes { nodes } => assert!(x_nodes && nodes == exp.nodes),
                BudgetBreach::ScalarBytes { total_scalar_bytes } => {
                    assert!(x_bytes && total_scalar_bytes == exp.bytes)
                }
                BudgetBreach::MergeKeys { merge_keys } => {
                    assert!(x_merge && merge_keys == exp.merge_keys)
                }
                BudgetBreach::Depth { depth } => assert!(x_depth && depth == exp.max_depth),
                _ => assert!(false, "breach kind does not match any exceeded limit"),
            }
            kani::cover!(true, "rejected");
        }
    }
    std::mem::forget(e);
}

macro_rules! node_step {
    ($name:ident, $sel:expr) => {
        #[kani::proof]
        #[kani::unwind(10)]
        fn $name() {
            step_nodes($sel)
        }
    };
}
node_step!(c07_step_scalar_empty, 0);
node_step!(c07_step_scalar_ab, 1);
node_step!(c07_step_scalar_merge, 2);
node_step!(c07_step_scalar_quoted_merge, 3);
node_step!(c07_step_scalar_tagged_merge, 4);
node_step!(c07_step_seq_start, 5);
node_step!(c07_step_map_start, 6);

// ------------------------------------------------------------------------------------------
// Step: end events with the exact two top entries of the container stack symbolic.
// ------------------------------------------------------------------------------------------
#[kani::proof]
#[kani::unwind(10)]
fn c07_step_ends() {
    let b = any_budget();
    let mut pre = any_cnt(&b);
    let policy = any_policy();
    let l: usize = kani::any();
    kani::assume(l <= 2);
    // representation invariant: depth == containers.len()
    kani::assume(pre.max_depth >= l);
    pre.depth = l;
    let mut e = mk(b.clone(), &pre, 0, policy);
    let below = any_container();
    let top = any_container();
    if l == 2 {
        e.containers.push(below);
    }
    if l >= 1 {
        e.containers.push(top);
    }
    let is_seq_end: bool = kani::any();
    let r = if is_seq_end {
        e.observe(&Event::SequenceEnd)
    } else {
        e.observe(&Event::MappingEnd)
    };

    let x_events = pre.events + 1 > b.max_events;
    let top_is_seq = matches!(top, ContainerState::Sequence { .. });
    let top_from_val = match top {
        ContainerState::Sequence { from_mapping_value } => from_mapping_value,
        ContainerState::Mapping {
            from_mapping_value, ..
        } => from_mapping_value,
    };
    let balanced = l >= 1 && top_is_seq == is_seq_end;
    match r {
        Ok(()) => {
            assert!(!x_events && balanced);
            let mut exp = pre;
            exp.events += 1;
            exp.depth = l - 1;
            assert!(same(&snapshot(&e), &exp));
            assert!(e.containers.len() == l - 1);
            if l == 2 {
                match (below, e.containers.last()) {
                    (
                        ContainerState::Mapping {
                            expecting_key: ek0,
                            from_mapping_value: f0,
                        },
                        Some(ContainerState::Mapping {
                            expecting_key: ek1,
                            from_mapping_value: f1,
                        }),
                    ) => {
                        // a finished value re-arms the parent mapping for the next key
                        assert!(*f1 == f0);
                        assert!(*ek1 == (ek0 || top_from_val));
                    }
                    (
                        ContainerState::Sequence {
                            from_mapping_value: f0,
                        },
                        Some(ContainerState::Sequence {
                            from_mapping_value: f1,
                        }),
                    ) => assert!(*f1 == f0),
                    _ => assert!(false, "parent entry changed kind"),
                }
            }
            kani::cover!(l == 2 && top_from_val, "value container closed");
        }
        Err(breach) => match breach {
            BudgetBreach::Events { events } => assert!(x_events && events == pre.events + 1),
            BudgetBreach::SequenceUnbalanced => assert!(!balanced),
            _ => assert!(false, "unexpected breach kind for an end event"),
        },
    }
    kani::cover!(l == 0, "underflow case reached");
    std::mem::forget(e);
}

// ------------------------------------------------------------------------------------------
// Step: alias, document and stream events (AllContent); PerDocument for the non-boundary ones.
// ------------------------------------------------------------------------------------------
#[kani::proof]
#[kani::unwind(10)]
fn c07_step_alias_doc() {
    let b = any_budget();
    let pre = any_cnt(&b);
    let policy = any_policy();
    let mut e = mk(b.clone(), &pre, 0, policy);
    let has_top: bool = kani::any();
    if has_top {
        e.containers.push(any_container());
    }
    let top0 = top_of(&e);
    let per_doc = matches!(e.policy, EnforcingPolicy::PerDocument);
    let sel: u8 = kani::any();
    kani::assume(sel < 6);
    // the document-start transition under PerDocument is the subject of c07_perdoc_reset
    kani::assume(!(sel == 1 && per_doc));
    let r = match sel {
        0 => e.observe(&Event::Alias(1)),
        1 => e.observe(&Event::DocumentStart(kani::any())),
        2 => e.observe(&Event::DocumentEnd),
        3 => e.observe(&Event::StreamStart),
        4 => e.observe(&Event::StreamEnd),
        _ => e.observe(&Event::Nothing),
    };
    let mut exp = pre;
    exp.events += 1;
    if sel == 0 {
        exp.aliases += 1;
    }
    if sel == 1 {
        exp.documents += 1;
    }
    let x_events = exp.events > b.max_events;
    let x_alias = exp.aliases > b.max_aliases;
    let x_docs = exp.documents > b.max_documents;
    match r {
        Ok(()) => {
            assert!(!(x_events || x_alias || x_docs));
            assert!(same(&snapshot(&e), &exp));
            assert!(e.containers.len() == has_top as usize);
            match (top0, top_of(&e)) {
                (None, None) => {}
                (Some((true, ek0, f0)), Some((true, ek1, f1))) => {
                    // only an alias is a node: it fills the key or the value slot
                    assert!(f0 == f1 && ek1 == if sel == 0 { !ek0 } else { ek0 });
                }
                (Some((false, _, f0)), Some((false, _, f1))) => assert!(f0 == f1),
                _ => assert!(false),
            }
            kani::cover!(sel == 0, "alias accepted");
            kani::cover!(sel == 1, "document accepted");
        }
        Err(breach) => match breach {
            BudgetBreach::Events { events } => assert!(x_events && events == exp.events),
            BudgetBreach::Aliases { aliases } => {
                assert!(sel == 0 && x_alias && aliases == exp.aliases)
            }
            BudgetBreach::Documents { documents } => {
                assert!(sel == 1 && x_docs && documents == exp.documents)
            }
            _ => assert!(false, "breach kind does not match any exceeded limit"),
        },
    }
    std::mem::forget(e);
}

// ------------------------------------------------------------------------------------------
// Anchors: distinct anchor ids are counted once; limit exact. Ids concrete per branch.
// ------------------------------------------------------------------------------------------
fn step_anchors(sel: u8, n0: usize) {
    let b = any_budget();
    let pre = any_cnt(&b);
    // `sel` and `n0` are constants of the calling harness (concrete hash-set structure)
    kani::assume(n0 <= b.max_anchors);
    let mut e = mk(b.clone(), &pre, n0, EnforcingPolicy::AllContent);
    // keep every other limit out of the way: this harness is about anchors only
    kani::assume(pre.events < b.max_events && pre.nodes < b.max_nodes);
    kani::assume(pre.max_depth < b.max_depth && pre.bytes < b.max_total_scalar_bytes);
    // anchor id of the event: 1 (possibly already defined), 3 (never defined before)
    let (aid, r) = match sel {
        0 => (1usize, e.observe(&Event::Scalar(Cow::Borrowed("v"), ScalarStyle::Plain, 1, None))),
        1 => (3, e.observe(&Event::Scalar(Cow::Borrowed("v"), ScalarStyle::Plain, 3, None))),
        2 => (1, e.observe(&Event::SequenceStart(1, None))),
        3 => (3, e.observe(&Event::SequenceStart(3, None))),
        4 => (1, e.observe(&Event::MappingStart(1, None))),
        _ => (3, e.observe(&Event::MappingStart(3, None))),
    };
    let is_new = aid > n0;
    let count = n0 + is_new as usize;
    match &r {
        Ok(()) => {
            assert!(count <= b.max_anchors, "accepted beyond max_anchors");
            assert!(e.report.anchors == count && e.defined_anchors.len() == count);
            kani::cover!(true, "anchored node accepted");
        }
        Err(BudgetBreach::Anchors { anchors }) => {
            assert!(is_new && count > b.max_anchors && *anchors == count);
        }
        Err(_) => assert!(false, "unexpected breach"),
    }
    // a new anchor must be able to hit the limit (vacuity witness); a re-used id never does
    kani::cover!(!is_new || r.is_err(), "anchor limit hit");
    std::mem::forget(e);
}

macro_rules! anchor_step {
    ($name:ident, $sel:expr, $n0:expr) => {
        #[kani::proof]
        #[kani::unwind(10)]
        fn $name() {
            step_anchors($sel, $n0)
        }
    };
}
anchor_step!(c07_anchor_scalar_first, 0, 0);
anchor_step!(c07_anchor_scalar_seen, 0, 1);
anchor_step!(c07_anchor_scalar_new, 1, 1);
anchor_step!(c07_anchor_seq_seen, 2, 1);
anchor_step!(c07_anchor_seq_new, 3, 1);
anchor_step!(c07_anchor_map_seen, 4, 1);
anchor_step!(c07_anchor_map_new, 5, 1);

// ------------------------------------------------------------------------------------------
// Post-scan alias/anchor ratio heuristic: verdict == documented inequality, for all values.
// ------------------------------------------------------------------------------------------
#[kani::proof]
#[kani::unwind(10)]
fn c07_finalize_ratio() {
    let b = any_budget();
    let pre = any_cnt(&b);
    let n: usize = kani::any();
    kani::assume(n <= 2);
    let e = match n {
        0 => mk(b.clone(), &pre, 0, any_policy()),
        1 => mk(b.clone(), &pre, 1, any_policy()),
        _ => mk(b.clone(), &pre, 2, any_policy()),
    };
    let rep = e.finalize();
    let excessive = n == 0
        || (pre.aliases as u128) > (b.alias_anchor_ratio_multiplier as u128) * (n as u128);
    let expect =
        b.enforce_alias_anchor_ratio && pre.aliases >= b.alias_anchor_min_aliases && excessive;
    match rep.breached {
        Some(BudgetBreach::AliasAnchorRatio { aliases, anchors }) => {
            assert!(expect, "ratio breach reported although the documented inequality is false");
            assert!(aliases == pre.aliases && anchors == n);
            kani::cover!(n == 2, "ratio breach with two anchors");
        }
        None => {
            assert!(!expect, "ratio breach missed");
            kani::cover!(n == 2 && b.enforce_alias_anchor_ratio, "within ratio");
        }
        Some(_) => assert!(false, "finalize invented another breach"),
    }
    assert!(rep.events == pre.events && rep.aliases == pre.aliases && rep.anchors == n);
    assert!(rep.nodes == pre.nodes && rep.max_depth == pre.max_depth);
    assert!(rep.total_scalar_bytes == pre.bytes && rep.merge_keys == pre.merge_keys);
    assert!(rep.documents == pre.documents);
}

// ------------------------------------------------------------------------------------------
// Per-document enforcement: a document start forgets everything about earlier documents.
// Two enforcers in two *different arbitrary* states observe DocumentStart; afterwards they must
// be indistinguishable (verdict, every counter, nesting state, number of known anchors). One of
// them may in particular be the state of a fresh enforcer, so "document k is treated like
// document 1" is a special case.
// ------------------------------------------------------------------------------------------
#[kani::proof]
#[kani::unwind(10)]
fn c07_perdoc_reset() {
    let b = any_budget();
    // e1: arbitrary history, possibly a document abandoned by error recovery (nesting left open)
    let p1 = any_cnt(&b);
    let p2 = {
        let mut c = any_cnt(&b);
        c.depth = 0;
        c
    };
    let n1: usize = kani::any();
    kani::assume(n1 <= 2 && n1 <= b.max_anchors);
    let mut e1 = match n1 {
        0 => mk(b.clone(), &p1, 0, EnforcingPolicy::PerDocument),
        1 => mk(b.clone(), &p1, 1, EnforcingPolicy::PerDocument),
        _ => mk(b.clone(), &p1, 2, EnforcingPolicy::PerDocument),
    };
    if kani::any() {
        e1.containers.push(any_container());
    }
    // e2: the state of an enforcer at a clean document boundary (e.g. a fresh one)
    let mut e2 = mk(b.clone(), &p2, 0, EnforcingPolicy::PerDocument);
    // `documents` is not a per-document quantity (and is ignored under this policy)
    kani::assume(p1.documents == p2.documents);
    let explicit: bool = kani::any();
    let r1 = e1.observe(&Event::DocumentStart(explicit));
    let r2 = e2.observe(&Event::DocumentStart(explicit));
    assert!(
        r1.is_ok() == r2.is_ok(),
        "whether a document may start depends on the documents read before it"
    );
    if r1.is_ok() {
        assert!(
            same(&snapshot(&e1), &snapshot(&e2)),
            "usage counters of earlier documents leak into the next document"
        );
        assert!(
            e1.defined_anchors.len() == e2.defined_anchors.len()
                && e1.report.anchors == e2.report.anchors,
            "anchors of earlier documents are still counted"
        );
        assert!(e1.containers.len() == e2.containers.len());
        kani::cover!(n1 == 2 && p1.events > 5, "non-trivial history");
    }
    std::mem::forget(e1);
    std::mem::forget(e2);
}

// Vacuity twin: the same construction must be able to reach its end.
#[kani::proof]
#[kani::unwind(10)]
fn c07_witness_reachable() {
    let b = any_budget();
    let pre = any_cnt(&b);
    let mut e = mk(b.clone(), &pre, 2, any_policy());
    let r = e.observe(&Event::SequenceStart(0, None));
    kani::cover!(r.is_ok(), "ok reachable");
    kani::cover!(r.is_err(), "err reachable");
    std::mem::forget(e);
}


// Kani harnesses mounted inside src/parse_scalars.rs (child module: sees private items).
//
// C06 (scalars are interpreted exactly per requested type; never wrapped) and the scalar-kernel
// part of C01 (no panic: `&rest[2..]`, checked arithmetic).
use super::*;
use crate::verif_common::stdlite;
use crate::verif_common::{any_ascii, as_str, eq_ci};

fn loc() -> Location {
    Location::UNKNOWN
}

// ------------------------------------------------------------------------------------------
// Reference integer reader (oracle). Grammar of the documented notations:
//   ws* [+|-] ( 0x|0X hex+ | 0o|0O oct+ | 0b|0B bin+ | [legacy] 00 oct* | dec+ ) ws*
// where `_` may appear anywhere among the digits and is ignored, at least one digit is required,
// unsigned targets reject '-' outright. Value in wide arithmetic (i128 here: inputs are short).
// Returns None = not an integer of this notation; Some(v) = exact mathematical value.
// ------------------------------------------------------------------------------------------
fn is_ws(b: u8) -> bool {
    b == b' ' || (b >= 0x09 && b <= 0x0D)
}

fn ref_int(s: &[u8], legacy_octal: bool, signed: bool) -> Option<i128> {
    let mut lo = 0;
    let mut hi = s.len();
    while lo < hi && is_ws(s[lo]) {
        lo += 1;
    }
    while hi > lo && is_ws(s[hi - 1]) {
        hi -= 1;
    }
    let mut neg = false;
    if lo < hi && s[lo] == b'+' {
        lo += 1;
    } else if lo < hi && s[lo] == b'-' {
        if !signed {
            return None;
        }
        neg = true;
        lo += 1;
    }
    let mut radix: i128 = 10;
    if hi - lo >= 2 && s[lo] == b'0' {
        let p = s[lo + 1];
        if p == b'x' || p == b'X' {
            radix = 16;
            lo += 2;
        } else if p == b'o' || p == b'O' {
            radix = 8;
            lo += 2;
        } else if p == b'b' || p == b'B' {
            radix = 2;
            lo += 2;
        } else if legacy_octal && p == b'0' {
            radix = 8;
            if hi - lo == 2 {
                return Some(0);
            }
            lo += 2;
        }
    }
    let mut v: i128 = 0;
    let mut saw = false;
    let mut i = lo;
    while i < hi {
        let c = s[i];
        i += 1;
        if c == b'_' {
            continue;
        }
        let d: i128 = if c >= b'0' && c <= b'9' {
            (c - b'0') as i128
        } else if radix == 16 && c >= b'a' && c <= b'f' {
            (c - b'a') as i128 + 10
        } else if radix == 16 && c >= b'A' && c <= b'F' {
            (c - b'A') as i128 + 10
        } else {
            return None;
        };
        if d >= radix {
            return None;
        }
        v = v * radix + d; // cannot overflow: at most 40 digits are ever fed (see harness bounds)
        saw = true;
    }
    if !saw {
        return None;
    }
    Some(if neg { -v } else { v })
}

macro_rules! int_harness {
    ($name:ident, $t:ty, $tyname:expr, $n:expr, $unwind:expr, signed) => {
        #[kani::proof]
        #[kani::unwind($unwind)]
        #[kani::stub(core::str::validations::run_utf8_validation, stdlite::run_utf8_validation)]
        fn $name() {
            let a: [u8; $n] = any_ascii::<$n>();
            let legacy: bool = kani::any();
            let r = parse_int_signed::<$t>(as_str(&a), $tyname, loc(), legacy);
            let want = ref_int(&a, legacy, true);
            match (&r, want) {
                (Ok(v), Some(w)) => {
                    assert!(w >= <$t>::MIN as i128 && w <= <$t>::MAX as i128, "out-of-range value accepted");
                    assert!(*v as i128 == w, "value differs from the exact one (wrapped/truncated?)");
                    kani::cover!(w < 0, "negative value accepted");
                    kani::cover!(w > 9, "multi-digit value accepted");
                }
                (Ok(_), None) => assert!(false, "accepted a token that is not a documented integer notation"),
                (Err(_), Some(w)) => {
                    assert!(w < <$t>::MIN as i128 || w > <$t>::MAX as i128, "rejected a valid in-range integer");
                    kani::cover!(true, "out-of-range integer rejected");
                }
                (Err(_), None) => {}
            }
            std::mem::forget(r);
        }
    };
    ($name:ident, $t:ty, $tyname:expr, $n:expr, $unwind:expr, unsigned) => {
        #[kani::proof]
        #[kani::unwind($unwind)]
        #[kani::stub(core::str::validations::run_utf8_validation, stdlite::run_utf8_validation)]
        fn $name() {
            let a: [u8; $n] = any_ascii::<$n>();
            let legacy: bool = kani::any();
            let r = parse_int_unsigned::<$t>(as_str(&a), $tyname, loc(), legacy);
            let want = ref_int(&a, legacy, false);
            match (&r, want) {
                (Ok(v), Some(w)) => {
                    assert!(w >= 0 && w <= <$t>::MAX as i128, "out-of-range value accepted");
                    assert!(*v as i128 == w, "value differs from the exact one (wrapped/truncated?)");
                    kani::cover!(w > 9, "multi-digit value accepted");
                }
                (Ok(_), None) => assert!(false, "accepted a token that is not a documented integer notation"),
                (Err(_), Some(w)) => {
                    assert!(w > <$t>::MAX as i128, "rejected a valid in-range integer");
                    kani::cover!(true, "out-of-range integer rejected");
                }
                (Err(_), None) => {}
            }
            std::mem::forget(r);
        }
    };
}

int_harness!(c06_int_i8_3, i8, "i8", 3, 6, signed);
int_harness!(c06_int_u8_3, u8, "u8", 3, 6, unsigned);
int_harness!(c06_int_i8_4, i8, "i8", 4, 7, signed);
int_harness!(c06_int_u8_4, u8, "u8", 4, 7, unsigned);
int_harness!(c06_int_i8_5, i8, "i8", 5, 8, signed);
int_harness!(c06_int_u8_5, u8, "u8", 5, 8, unsigned);
int_harness!(c06_int_i16_5, i16, "i16", 5, 8, signed);

// ------------------------------------------------------------------------------------------
// Width boundaries with structured wide inputs: concrete skeleton `[-]prefix d{L}`, every digit
// symbolic in its radix class. Covers MIN-1, MIN, MAX, MAX+1 of the target as special cases of
// "all L-digit strings". Oracle: digit-by-digit comparison with the boundary literal (no wide
// multiplication in the oracle).
// ------------------------------------------------------------------------------------------
/// lexicographic comparison of equal-length digit strings (digits already normalised 0..radix)
fn digits_le(d: &[u8], bound: &[u8]) -> bool {
    let mut i = 0;
    while i < d.len() {
        if d[i] < bound[i] {
            return true;
        }
        if d[i] > bound[i] {
            return false;
        }
        i += 1;
    }
    true
}

fn hex_val(c: u8) -> u8 {
    if c >= b'0' && c <= b'9' {
        c - b'0'
    } else if c >= b'a' && c <= b'f' {
        c - b'a' + 10
    } else {
        c - b'A' + 10
    }
}

macro_rules! wide_dec {
    ($name:ident, $t:ty, $tyname:expr, $l:expr, $neg:expr, $bound:expr, $unwind:expr, $signed:ident) => {
        #[kani::proof]
        #[kani::unwind($unwind)]
        #[kani::stub(core::str::validations::run_utf8_validation, stdlite::run_utf8_validation)]
        fn $name() {
            const L: usize = $l;
            const OFF: usize = if $neg { 1 } else { 0 };
            let mut buf = [b'0'; L + OFF];
            if $neg {
                buf[0] = b'-';
            }
            let mut norm = [0u8; L];
            let mut i = 0;
            while i < L {
                let d: u8 = kani::any();
                kani::assume(d <= 9);
                buf[OFF + i] = b'0' + d;
                norm[i] = d;
                i += 1;
            }
            let bound: &[u8; L] = $bound;
            let mut b = [0u8; L];
            i = 0;
            while i < L {
                b[i] = bound[i] - b'0';
                i += 1;
            }
            let fits = digits_le(&norm, &b);
            let r = wide_dec!(@call $signed, $t, as_str(&buf), $tyname);
            match &r {
                Ok(v) => {
                    assert!(fits, "value beyond the target width accepted (wrapped?)");
                    // exactness: Horner evaluation of the digits in wrapping u64 arithmetic (exact
                    // whenever the value fits, which was just asserted); no division in the oracle
                    let mut w: u128 = 0;
                    let mut k = 0;
                    while k < L {
                        w = w.wrapping_mul(10).wrapping_add(norm[k] as u128);
                        k += 1;
                    }
                    assert!(wide_dec!(@mag $signed, *v) == w, "parsed value differs from the digits");
                    assert!(wide_dec!(@isneg $signed, *v) == ($neg && w != 0));
                    kani::cover!(true, "accepted");
                }
                Err(_) => {
                    assert!(!fits, "in-range integer rejected");
                    kani::cover!(true, "rejected");
                }
            }
            std::mem::forget(r);
        }
    };
    (@call signed, $t:ty, $s:expr, $tyname:expr) => { parse_int_signed::<$t>($s, $tyname, loc(), false) };
    (@call unsigned, $t:ty, $s:expr, $tyname:expr) => { parse_int_unsigned::<$t>($s, $tyname, loc(), false) };
    (@mag signed, $x:expr) => { $x.unsigned_abs() as u128 };
    (@mag unsigned, $x:expr) => { $x as u128 };
    (@isneg signed, $x:expr) => { $x < 0 };
    (@isneg unsigned, $x:expr) => { false };
}

// i16: 5 digits, bounds 32767 / -32768 ; u16: 65535
wide_dec!(c06_wide_i16_pos, i16, "i16", 5, false, b"32767", 8, signed);
wide_dec!(c06_wide_i16_neg, i16, "i16", 5, true, b"32768", 8, signed);
wide_dec!(c06_wide_u16, u16, "u16", 5, false, b"65535", 8, unsigned);
// i32: 10 digits
wide_dec!(c06_wide_i32_pos, i32, "i32", 10, false, b"2147483647", 13, signed);
wide_dec!(c06_wide_i32_neg, i32, "i32", 10, true, b"2147483648", 13, signed);
wide_dec!(c06_wide_u32, u32, "u32", 10, false, b"4294967295", 13, unsigned);
// i64: 19 digits, u64: 20 digits
wide_dec!(c06_wide_i64_pos, i64, "i64", 19, false, b"9223372036854775807", 22, signed);
wide_dec!(c06_wide_i64_neg, i64, "i64", 19, true, b"9223372036854775808", 22, signed);
wide_dec!(c06_wide_u64, u64, "u64", 20, false, b"18446744073709551615", 23, unsigned);

// hex / octal / binary boundaries: value fits iff the digit string <= MAX literal of that radix
macro_rules! wide_radix {
    ($name:ident, $t:ty, $tyname:expr, $l:expr, $neg:expr, $prefix:expr, $radix:expr, $bound:expr, $unwind:expr, $signed:ident) => {
        #[kani::proof]
        #[kani::unwind($unwind)]
        #[kani::stub(core::str::validations::run_utf8_validation, stdlite::run_utf8_validation)]
        fn $name() {
            const L: usize = $l;
            const OFF: usize = if $neg { 3 } else { 2 };
            let mut buf = [b'0'; L + OFF];
            if $neg {
                buf[0] = b'-';
            }
            buf[OFF - 1] = $prefix;
            let mut norm = [0u8; L];
            let mut i = 0;
            while i < L {
                let c: u8 = kani::any();
                let ok = (c >= b'0' && c <= b'9' && c - b'0' < $radix)
                    || ($radix == 16 && ((c >= b'a' && c <= b'f') || (c >= b'A' && c <= b'F')));
                kani::assume(ok);
                buf[OFF + i] = c;
                norm[i] = hex_val(c);
                i += 1;
            }
            let bound: &[u8; L] = $bound;
            let mut b = [0u8; L];
            i = 0;
            while i < L {
                b[i] = hex_val(bound[i]);
                i += 1;
            }
            let fits = digits_le(&norm, &b);
            let r = wide_dec!(@call $signed, $t, as_str(&buf), $tyname);
            match &r {
                Ok(v) => {
                    assert!(fits, "value beyond the target width accepted (wrapped?)");
                    let shift: u32 = if $radix == 16 { 4 } else if $radix == 8 { 3 } else { 1 };
                    let mut w: u128 = 0;
                    let mut k = 0;
                    while k < L {
                        w = (w << shift) | norm[k] as u128;
                        k += 1;
                    }
                    assert!(wide_dec!(@mag $signed, *v) == w, "parsed value differs from the digits");
                    assert!(wide_dec!(@isneg $signed, *v) == ($neg && w != 0));
                    kani::cover!(true, "accepted");
                }
                Err(_) => {
                    assert!(!fits, "in-range integer rejected");
                    kani::cover!(true, "rejected");
                }
            }
            std::mem::forget(r);
        }
    };
}

wide_radix!(c06_wide_hex_i8_pos, i8, "i8", 2, false, b'x', 16, b"7f", 8, signed);
wide_radix!(c06_wide_hex_i8_neg, i8, "i8", 2, true, b'x', 16, b"80", 8, signed);
wide_radix!(c06_wide_hex_u8, u8, "u8", 3, false, b'X', 16, b"0ff", 8, unsigned);
wide_radix!(c06_wide_oct_i8_pos, i8, "i8", 3, false, b'o', 8, b"177", 8, signed);
wide_radix!(c06_wide_oct_u8, u8, "u8", 3, false, b'o', 8, b"377", 8, unsigned);
wide_radix!(c06_wide_bin_i8_pos, i8, "i8", 8, false, b'b', 2, b"01111111", 13, signed);
wide_radix!(c06_wide_bin_i8_neg, i8, "i8", 8, true, b'b', 2, b"10000000", 13, signed);
wide_radix!(c06_wide_bin_u8, u8, "u8", 9, false, b'b', 2, b"011111111", 14, unsigned);
wide_radix!(c06_wide_hex_i32_pos, i32, "i32", 8, false, b'x', 16, b"7fffffff", 13, signed);
wide_radix!(c06_wide_hex_i32_neg, i32, "i32", 8, true, b'x', 16, b"80000000", 13, signed);
wide_radix!(c06_wide_hex_u32, u32, "u32", 9, false, b'x', 16, b"0ffffffff", 14, unsigned);
wide_radix!(c06_wide_hex_i64_pos, i64, "i64", 16, false, b'x', 16, b"7fffffffffffffff", 21, signed);
wide_radix!(c06_wide_hex_i64_neg, i64, "i64", 16, true, b'x', 16, b"8000000000000000", 21, signed);
wide_radix!(c06_wide_hex_u64, u64, "u64", 17, false, b'x', 16, b"0ffffffffffffffff", 22, unsigned);
// 32 hex digits: magnitudes up to 2^128-1 against 64- and 128-bit signed targets (u128 -> i128 -> T narrowing)
wide_radix!(c06_wide_hex32_i64_pos, i64, "i64", 32, false, b'x', 16, b"00000000000000007fffffffffffffff", 37, signed);
wide_radix!(c06_wide_hex32_i64_neg, i64, "i64", 32, true, b'x', 16, b"00000000000000008000000000000000", 37, signed);

// Cheap variant of the 128-bit boundary: `[-]0x` + two SYMBOLIC top digits + 30 concrete digits
// (all 'f' or all '0'), i.e. magnitudes XY*16^30 (+ 16^30-1). Signed targets must reject every
// magnitude beyond their range - in particular those >= 2^127, which a `u128 as i128` cast would
// wrap to small negative numbers.
macro_rules! hex32_top {
    ($name:ident, $t:ty, $tyname:expr, $neg:expr, $fill:expr) => {
        #[kani::proof]
        #[kani::unwind(38)]
        #[kani::stub(core::str::validations::run_utf8_validation, stdlite::run_utf8_validation)]
        fn $name() {
            const OFF: usize = if $neg { 3 } else { 2 };
            let mut buf = [$fill; 32 + OFF];
            buf[0] = if $neg { b'-' } else { b'0' };
            buf[OFF - 2] = b'0';
            buf[OFF - 1] = b'x';
            let x: u8 = kani::any();
            let y: u8 = kani::any();
            kani::assume(x < 16 && y < 16);
            let hexd = |d: u8| if d < 10 { b'0' + d } else { b'a' + d - 10 };
            buf[OFF] = hexd(x);
            buf[OFF + 1] = hexd(y);
            let top = (x as u128) * 16 + y as u128;
            let tail: u128 = if $fill == b'f' { (1u128 << 120) - 1 } else { 0 };
            let mag: u128 = (top << 120) | tail;
            // exact expected value as i128 (if representable)
            let fits_i128 = if $neg { mag <= (1u128 << 127) } else { mag < (1u128 << 127) };
            let r = parse_int_signed::<$t>(as_str(&buf), $tyname, loc(), false);
            match &r {
                Ok(v) => {
                    assert!(fits_i128, "magnitude beyond i128 accepted (wrapped)");
                    let want: i128 = if $neg { (mag as i128).wrapping_neg() } else { mag as i128 };
                    assert!(*v as i128 == want, "value differs from the exact one");
                    assert!(want >= <$t>::MIN as i128 && want <= <$t>::MAX as i128, "out-of-range value accepted");
                }
                Err(_) => {
                    let want_ok = fits_i128 && {
                        let want: i128 = if $neg { (mag as i128).wrapping_neg() } else { mag as i128 };
                        want >= <$t>::MIN as i128 && want <= <$t>::MAX as i128
                    };
                    assert!(!want_ok, "in-range integer rejected");
                }
            }
            kani::cover!(r.is_err(), "rejected");
            std::mem::forget(r);
        }
    };
}
#[kani::proof]
#[kani::unwind(48)]
#[kani::stub(core::str::validations::run_utf8_validation, stdlite::run_utf8_validation)]
fn c06_oct43_top_u128() {
    let mut buf = [b'7'; 45];
    buf[0] = b'0';
    buf[1] = b'o';
    let x: u8 = kani::any();
    kani::assume(x < 8);
    buf[2] = b'0' + x;
    // value = x * 8^42 + (8^42 - 1); 8^42 = 2^126, so it fits u128 iff x <= 3
    let r = parse_int_unsigned::<u128>(as_str(&buf), "u128", loc(), false);
    match &r {
        Ok(v) => {
            assert!(x <= 3, "value beyond u128 accepted");
            assert!(*v == ((x as u128) << 126) | ((1u128 << 126) - 1), "value differs from the exact one");
        }
        Err(_) => assert!(x > 3, "in-range integer rejected"),
    }
    kani::cover!(r.is_err(), "rejected");
    kani::cover!(r.is_ok(), "accepted");
    std::mem::forget(r);
}

hex32_top!(c06_hex32_top_i64_f, i64, "i64", false, b'f');
hex32_top!(c06_hex32_top_i64_neg_f, i64, "i64", true, b'f');
hex32_top!(c06_hex32_top_i128_0, i128, "i128", false, b'0');
hex32_top!(c06_hex32_top_i128_neg_0, i128, "i128", true, b'0');
wide_radix!(c06_wide_hex32_i128_pos, i128, "i128", 32, false, b'x', 16, b"7fffffffffffffffffffffffffffffff", 37, signed);
wide_radix!(c06_wide_hex32_i128_neg, i128, "i128", 32, true, b'x', 16, b"80000000000000000000000000000000", 37, signed);
wide_radix!(c06_wide_hex33_u128, u128, "u128", 33, false, b'x', 16, b"0ffffffffffffffffffffffffffffffff", 38, unsigned);
wide_radix!(c06_wide_oct_i64_pos, i64, "i64", 22, false, b'o', 8, b"0777777777777777777777", 27, signed);
wide_radix!(c06_wide_oct_u64, u64, "u64", 22, false, b'o', 8, b"1777777777777777777777", 27, unsigned);

// ------------------------------------------------------------------------------------------
// Bool and null tables.
// ------------------------------------------------------------------------------------------
fn ref_trim(s: &[u8]) -> (usize, usize) {
    let mut lo = 0;
    let mut hi = s.len();
    while lo < hi && is_ws(s[lo]) {
        lo += 1;
    }
    while hi > lo && is_ws(s[hi - 1]) {
        hi -= 1;
    }
    (lo, hi)
}

fn ref_bool(s: &[u8]) -> Option<bool> {
    let (lo, hi) = ref_trim(s);
    let t = &s[lo..hi];
    if eq_ci(t, b"true") || eq_ci(t, b"yes") || eq_ci(t, b"y") || eq_ci(t, b"on") {
        Some(true)
    } else if eq_ci(t, b"false") || eq_ci(t, b"no") || eq_ci(t, b"n") || eq_ci(t, b"off") {
        Some(false)
    } else {
        None
    }
}

macro_rules! bool_harness {
    ($name:ident, $n:expr, $unwind:expr) => {
        #[kani::proof]
        #[kani::unwind($unwind)]
        #[kani::stub(core::str::validations::run_utf8_validation, stdlite::run_utf8_validation)]
        #[kani::stub(alloc::fmt::format, stdlite::format_stub)]
        fn $name() {
            let a: [u8; $n] = any_ascii::<$n>();
            let r = parse_yaml11_bool(as_str(&a));
            match (&r, ref_bool(&a)) {
                (Ok(v), Some(w)) => {
                    assert!(*v == w);
                    kani::cover!(w, "a true literal");
                    kani::cover!(!w, "a false literal");
                }
                (Err(_), None) => {}
                _ => assert!(false, "YAML 1.1 boolean table violated"),
            }
            std::mem::forget(r);
        }
    };
}
bool_harness!(c06_bool_3, 3, 6);
bool_harness!(c06_bool_4, 4, 7);
bool_harness!(c06_bool_5, 5, 8);

fn any_style() -> ScalarStyle {
    let k: u8 = kani::any();
    match k % 5 {
        0 => ScalarStyle::Plain,
        1 => ScalarStyle::SingleQuoted,
        2 => ScalarStyle::DoubleQuoted,
        3 => ScalarStyle::Literal,
        _ => ScalarStyle::Folded,
    }
}

macro_rules! null_harness {
    ($name:ident, $n:expr, $unwind:expr) => {
        #[kani::proof]
        #[kani::unwind($unwind)]
        #[kani::stub(core::str::validations::run_utf8_validation, stdlite::run_utf8_validation)]
        fn $name() {
            let a: [u8; $n] = any_ascii::<$n>();
            let len: usize = kani::any();
            kani::assume(len <= $n);
            let s = &a[..len];
            let style = any_style();
            let plain = matches!(style, ScalarStyle::Plain);
            let quoted = matches!(style, ScalarStyle::SingleQuoted | ScalarStyle::DoubleQuoted);
            let tilde = len == 1 && s[0] == b'~';
            let null = eq_ci(s, b"null");
            // table of the property: plain empty / ~ / null (any case) are null-like; for Option
            // additionally an empty block scalar; quoted scalars never
            let want = plain && (len == 0 || tilde || null);
            let want_opt = (len == 0 && !quoted) || (plain && (tilde || null));
            assert!(scalar_is_nullish(as_str(s), &style) == want);
            assert!(scalar_is_nullish_for_option(as_str(s), &style) == want_opt);
            assert!(!quoted || (!want && !want_opt), "a quoted scalar was taken for null");
            kani::cover!(want && len == 4, "null literal");
            kani::cover!(want_opt && !want, "null for Option only");
        }
    };
}
null_harness!(c06_null_4, 4, 7);

// leading_zero_decimal: true iff (after trim and one optional sign) the token starts with '0',
// has a further character, and that character is not a radix letter.
#[kani::proof]
#[kani::unwind(7)]
#[kani::stub(core::str::validations::run_utf8_validation, stdlite::run_utf8_validation)]
fn c06_leading_zero_4() {
    let a: [u8; 4] = any_ascii::<4>();
    let len: usize = kani::any();
    kani::assume(len <= 4);
    let s = &a[..len];
    let (mut lo, hi) = ref_trim(s);
    if lo < hi && (s[lo] == b'+' || s[lo] == b'-') {
        lo += 1;
    }
    let want = hi - lo >= 2
        && s[lo] == b'0'
        && !matches!(s[lo + 1], b'x' | b'X' | b'o' | b'O' | b'b' | b'B');
    assert!(leading_zero_decimal(as_str(s)) == want);
    kani::cover!(want, "redundant leading zero");
}

// ------------------------------------------------------------------------------------------
// Float special tokens: .nan/.inf forms (case, sign) are decided before the decimal parser.
// dec2flt itself is libcore's and outside; here T::from_str is only reached for other tokens.
// ------------------------------------------------------------------------------------------
/// Exact replacement for `<f64 as FromStr>::from_str` on DIGIT-FREE inputs (the only ones the
/// float-token harnesses produce): Rust's float syntax without digits is [+-]?(inf|infinity|nan),
/// ASCII case-insensitive. The error value is obtained from the unstubbed f32 parser.
fn f64_from_str_nodigits(s: &str) -> Result<f64, core::num::ParseFloatError> {
    let b = s.as_bytes();
    let (neg, r) = if !b.is_empty() && (b[0] == b'+' || b[0] == b'-') { (b[0] == b'-', &b[1..]) } else { (false, b) };
    if eq_ci(r, b"inf") || eq_ci(r, b"infinity") {
        return Ok(if neg { f64::NEG_INFINITY } else { f64::INFINITY });
    }
    if eq_ci(r, b"nan") {
        return Ok(f64::NAN);
    }
    match "".parse::<f32>() {
        Err(e) => Err(e),
        Ok(_) => Ok(0.0),
    }
}

fn float_special_n<const N: usize>() {
    let a: [u8; N] = any_ascii::<N>();
    let s = &a[..];
    // Tokens over the alphabet of the special forms. The documented forms must be accepted with
    // the documented value; every other token over this alphabet is not a number at all (Rust's
    // own float syntax would additionally admit [+-]?(inf|nan|infinity), which YAML does not
    // list but the crate deliberately delegates to `str::parse`) and must be rejected.
    let mut i = 0;
    while i < N {
        let c = s[i];
        let ok = matches!(c, b'.' | b'+' | b'-' | b'n' | b'N' | b'a' | b'A' | b'i' | b'I' | b'f' | b'F');
        kani::assume(ok);
        i += 1;
    }
    let nan = eq_ci(s, b".nan") || eq_ci(s, b"+.nan") || eq_ci(s, b"-.nan");
    let pinf = eq_ci(s, b".inf") || eq_ci(s, b"+.inf");
    let ninf = eq_ci(s, b"-.inf");
    // what str::parse::<f64> accepts over this alphabet
    let rust_nan = eq_ci(s, b"nan") || eq_ci(s, b"+nan") || eq_ci(s, b"-nan");
    let rust_pinf = eq_ci(s, b"inf") || eq_ci(s, b"+inf");
    let rust_ninf = eq_ci(s, b"-inf");
    let r = parse_yaml12_float::<f64>(as_str(s), loc(), SfTag::None, false);
    match &r {
        Ok(v) => {
            assert!(nan || pinf || ninf || rust_nan || rust_pinf || rust_ninf, "a token that is no float notation was accepted");
            assert!((nan || rust_nan) == v.is_nan());
            assert!((pinf || rust_pinf) == (*v == f64::INFINITY));
            assert!((ninf || rust_ninf) == (*v == f64::NEG_INFINITY));
        }
        Err(_) => {
            assert!(!(nan || pinf || ninf), "documented special float token rejected");
        }
    }
    // vacuity witnesses, phrased to be satisfiable for every token length N (the documented forms
    // have 4 or 5 characters)
    kani::cover!(N > 5 || r.is_ok(), "a special form is accepted");
    kani::cover!(r.is_err(), "a non-float token is rejected");
    kani::cover!(N != 5 || ninf, "negative infinity");
    std::mem::forget(r);
}

macro_rules! float_special {
    ($name:ident, $n:expr, $unwind:expr) => {
        #[kani::proof]
        #[kani::unwind($unwind)]
        #[kani::stub(core::str::validations::run_utf8_validation, stdlite::run_utf8_validation)]
        #[kani::stub(<f64 as core::str::FromStr>::from_str, f64_from_str_nodigits)]
        fn $name() {
            float_special_n::<$n>()
        }
    };
}
float_special!(c06_float_special_4, 4, 8);
float_special!(c06_float_special_5, 5, 9);
float_special!(c06_float_special_6, 6, 10);

// concrete-playback slot: bin/check writes the solver counterexample here as a unit test for native replay
include!("/verif/.build/playback/parse_scalars_pb.rs");

// Kani harnesses mounted inside src/ser.rs (child module: sees private items)

// concrete-playback slot: bin/check writes the solver counterexample here as a unit test for native replay
include!("/verif/.build/playback/ser_pb.rs");

// Kani harnesses mounted inside src/ser.rs (child module: sees private items).
//
// C20 (free-text channels - inline comments - can never alter, extend or break the document) and
// C12 (escaping in double-quoted / doubling in single-quoted style) at the level of the emitters,
// called on the real `YamlSerializer` over a fixed-size `fmt::Write` sink.
use super::*;
use crate::verif_common::stdlite;
use crate::verif_common::{any_utf8, as_str};

/// Fixed-capacity sink (no heap): the emitted text, byte for byte.
pub(crate) struct Sink<const CAP: usize> {
    b: [u8; CAP],
    n: usize,
}

impl<const CAP: usize> Sink<CAP> {
    fn new() -> Self {
        Sink { b: [0u8; CAP], n: 0 }
    }
    fn bytes(&self) -> &[u8] {
        &self.b[..self.n]
    }
}

impl<const CAP: usize> std::fmt::Write for Sink<CAP> {
    fn write_str(&mut self, s: &str) -> std::fmt::Result {
        let sb = s.as_bytes();
        if self.n + sb.len() > CAP {
            return Err(std::fmt::Error);
        }
        let mut i = 0;
        while i < sb.len() {
            self.b[self.n + i] = sb[i];
            i += 1;
        }
        self.n += sb.len();
        Ok(())
    }
}

// ------------------------------------------------------------------------------------------
// C12: double-quoted and single-quoted emitters against reference readers of those styles.
// ------------------------------------------------------------------------------------------
/// Reference reader of a YAML double-quoted scalar body (between the quotes), escapes per YAML 1.2
/// (the subset the emitter may produce). Writes code points; returns count or None if malformed.
fn ref_read_double<const M: usize>(b: &[u8], out: &mut [u32; M]) -> Option<usize> {
    let mut i = 0;
    let mut n = 0;
    while i < b.len() {
        let c = b[i];
        if c == b'"' {
            return None; // unescaped quote would end the scalar early
        }
        if c == b'\\' {
            if i + 1 >= b.len() {
                return None;
            }
            let e = b[i + 1];
            let (cp, adv): (u32, usize) = match e {
                b'\\' => (0x5C, 2),
                b'"' => (0x22, 2),
                b'0' => (0, 2),
                b'a' => (7, 2),
                b'b' => (8, 2),
                b't' => (9, 2),
                b'n' => (10, 2),
                b'v' => (11, 2),
                b'f' => (12, 2),
                b'r' => (13, 2),
                b'e' => (0x1B, 2),
                b'N' => (0x85, 2),
                b'L' => (0x2028, 2),
                b'P' => (0x2029, 2),
                b'x' | b'u' => {
                    let digits = if e == b'x' { 2 } else { 4 };
                    if i + 2 + digits > b.len() {
                        return None;
                    }
                    let mut v: u32 = 0;
                    let mut k = 0;
                    while k < digits {
                        let h = b[i + 2 + k];
                        let d = if h >= b'0' && h <= b'9' {
                            h - b'0'
                        } else if h >= b'A' && h <= b'F' {
                            h - b'A' + 10
                        } else if h >= b'a' && h <= b'f' {
                            h - b'a' + 10
                        } else {
                            return None;
                        };
                        v = v * 16 + d as u32;
                        k += 1;
                    }
                    (v, 2 + digits)
                }
                _ => return None,
            };
            if n >= M {
                return None;
            }
            out[n] = cp;
            n += 1;
            i += adv;
            continue;
        }
        // raw character: must not be a line break or other control (those would be folded / rejected)
        if c < 0x20 || c == 0x7F {
            return None;
        }
        let (cp, w): (u32, usize) = if c < 0x80 {
            (c as u32, 1)
        } else if c < 0xE0 {
            ((((c & 0x1F) as u32) << 6) | (b[i + 1] & 0x3F) as u32, 2)
        } else if c < 0xF0 {
            ((((c & 0x0F) as u32) << 12) | (((b[i + 1] & 0x3F) as u32) << 6) | (b[i + 2] & 0x3F) as u32, 3)
        } else {
            ((((c & 0x07) as u32) << 18) | (((b[i + 1] & 0x3F) as u32) << 12) | (((b[i + 2] & 0x3F) as u32) << 6) | (b[i + 3] & 0x3F) as u32, 4)
        };
        if cp == 0x85 || cp == 0x2028 || cp == 0x2029 || cp == 0xFEFF || (cp >= 0x80 && cp <= 0x9F) {
            return None; // must have been escaped
        }
        if n >= M {
            return None;
        }
        out[n] = cp;
        n += 1;
        i += w;
    }
    Some(n)
}

fn decode_all<const N: usize>(a: &[u8; N], out: &mut [u32; N]) -> usize {
    let mut i = 0;
    let mut n = 0;
    while i < N {
        let c = a[i];
        let (cp, w): (u32, usize) = if c < 0x80 {
            (c as u32, 1)
        } else if c < 0xE0 {
            ((((c & 0x1F) as u32) << 6) | (a[i + 1] & 0x3F) as u32, 2)
        } else if c < 0xF0 {
            ((((c & 0x0F) as u32) << 12) | (((a[i + 1] & 0x3F) as u32) << 6) | (a[i + 2] & 0x3F) as u32, 3)
        } else {
            ((((c & 0x07) as u32) << 18) | (((a[i + 1] & 0x3F) as u32) << 12) | (((a[i + 2] & 0x3F) as u32) << 6) | (a[i + 3] & 0x3F) as u32, 4)
        };
        out[n] = cp;
        n += 1;
        i += w;
    }
    n
}

fn quoted_n<const N: usize>() {
    let a: [u8; N] = any_utf8::<N>();
    let s = as_str(&a);
    let mut sink = Sink::<40>::new();
    let r = {
        let mut ser = YamlSerializer::new(&mut sink);
        let r = ser.write_quoted(s);
        std::mem::forget(ser);
        r
    };
    assert!(r.is_ok());
    let out = sink.bytes();
    assert!(out.len() >= 2 && out[0] == b'"' && out[out.len() - 1] == b'"', "not a double-quoted scalar");
    let body = &out[1..out.len() - 1];
    let mut want = [0u32; N];
    let nw = decode_all(&a, &mut want);
    let mut got = [0u32; N];
    match ref_read_double(body, &mut got) {
        Some(ng) => {
            let mut same = ng == nw;
            let mut k = 0;
            while k < N {
                if k < nw && k < ng && got[k] != want[k] {
                    same = false;
                }
                k += 1;
            }
            assert!(
                same || !crate::verif_common::e2e_string_mismatch(s, 0, true, false),
                "double-quoted form does not read back as the same string"
            );
            kani::cover!(body.len() > N, "something was escaped");
        }
        None => assert!(
            !crate::verif_common::e2e_string_mismatch(s, 0, true, false),
            "double-quoted form contains a raw character or escape the reader does not take verbatim"
        ),
    }
    std::mem::forget(r);
}

macro_rules! quoted_harness {
    ($name:ident, $n:expr, $unwind:expr) => {
        #[kani::proof]
        #[kani::unwind($unwind)]
        #[kani::stub(core::str::validations::run_utf8_validation, stdlite::run_utf8_validation)]
        #[kani::stub(crate::verif_common::e2e_string_mismatch, crate::verif_common::e2e_true_string)]
        fn $name() {
            quoted_n::<$n>()
        }
    };
}
quoted_harness!(c12_write_quoted_1, 1, 12);
quoted_harness!(c12_write_quoted_2, 2, 14);
quoted_harness!(c12_write_quoted_3, 3, 20);

// NOTE (C20, comment channel): a harness driving `TupleSer` / `write_end_of_scalar` makes Kani 0.68
// abort with an internal compiler error (codegen_get_discriminant: TryFromIntError(PosOverflow)) as
// soon as a discriminant read of the niche-encoded `Option<String>` fields (`comment_text`,
// `pending_inline_comment`) becomes reachable, and the ICE breaks the build of every other harness.
// The comment channel is therefore not claimed by this machinery (MANIFEST not_applicable).

// concrete-playback slot: bin/check writes the solver counterexample here as a unit test for native replay
include!("/verif/.build/playback/ser_pb.rs");

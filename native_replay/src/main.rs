// Native replay helper for solver witnesses that are expressible through the public API only.
//   native_replay f32-angle <decimal literal>
//     exit 1 + "DIFFERENT" if reading the literal into f32 with angle_conversions on and off gives
//     different bits (C19: ordinary float literals keep exactly the value they have without the
//     extension); exit 0 + "SAME" otherwise.
fn main() {
    let args: Vec<String> = std::env::args().collect();
    match args.get(1).map(|s| s.as_str()) {
        Some("f32-angle") => {
            let lit = &args[2];
            let off: Result<f32, _> = serde_saphyr::from_str_with_options(lit, serde_saphyr::options! { angle_conversions: false });
            let on: Result<f32, _> = serde_saphyr::from_str_with_options(lit, serde_saphyr::options! { angle_conversions: true });
            match (off, on) {
                (Ok(a), Ok(b)) if a.to_bits() == b.to_bits() => {
                    println!("SAME off={:08x} on={:08x}", a.to_bits(), b.to_bits());
                }
                (Ok(a), Ok(b)) => {
                    println!("DIFFERENT off={:08x} on={:08x}", a.to_bits(), b.to_bits());
                    std::process::exit(1);
                }
                (a, b) => {
                    println!("DIFFERENT off={:?} on={:?}", a.map(|x| x.to_bits()).map_err(|e| e.to_string()), b.map(|x| x.to_bits()).map_err(|e| e.to_string()));
                    std::process::exit(1);
                }
            }
        }
        _ => {
            eprintln!("usage: native_replay f32-angle <literal>");
            std::process::exit(2);
        }
    }
}

// Translator validation of the std-lite stub pack: every replacement is compared natively with
// the real std function on exhaustive small inputs. Not the deciding step of any property; it
// guards the trusted base of the harnesses that install these stubs.
#[path = "/verif/harness/stdlite.rs"]
mod stdlite;
#[path = "/verif/harness/numlook.rs"]
mod numlook;

/// Extract the regular expression of `is_numeric_looking` from the repository's current source and
/// compare the hand-written recogniser (the Kani stub) with it on every string up to 5 symbols.
fn check_numlook() -> u64 {
    let src = std::fs::read_to_string("/repo/src/ser_quoting.rs").expect("read ser_quoting.rs");
    let a = src.find("Regex::new(").expect("Regex::new in ser_quoting.rs");
    let rest = &src[a..];
    let q = rest.find("r\"").expect("raw string") + 2;
    let end = rest[q..].find("\",").expect("end of raw string");
    let pattern = &rest[q..q + end];
    let re = regex::Regex::new(pattern).expect("regex compiles");
    let al: Vec<char> = "+-0179xXobeE._aFg \n".chars().collect();
    let mut n = 0u64;
    let mut frontier = vec![String::new()];
    let mut all = vec![String::new()];
    for _ in 0..5 {
        let mut next = Vec::new();
        for s in &frontier { for &c in &al { let mut t = s.clone(); t.push(c); next.push(t); } }
        all.extend(next.iter().cloned());
        frontier = next;
    }
    for s in &all {
        assert_eq!(re.is_match(s), numlook::numeric_looking(s), "numeric_looking model differs from the regex on {:?}", s);
        n += 1;
    }
    for s in ["0x1F_ff", "0o777_", "0b1010_1", "123_456.7_8e+1_0", ".5e-3", "1e9", "+.5", "-0x", "0X1f", "1e", "1e+", "1._e1", "٣", "1\u{0663}"] {
        assert_eq!(re.is_match(s), numlook::numeric_looking(s), "numeric_looking model differs from the regex on {:?}", s);
        n += 1;
    }
    n
}

fn check_utf8(v: &[u8], n: &mut u64) {
    *n += 1;
    let real = core::str::from_utf8(v);
    let mine = stdlite::run_utf8_validation(v);
    match (real, mine) {
        (Ok(_), Ok(())) => {}
        (Err(a), Err(b)) => {
            assert_eq!(a.valid_up_to(), b.valid_up_to(), "valid_up_to for {:x?}", v);
            assert_eq!(a.error_len(), b.error_len(), "error_len for {:x?}", v);
        }
        (a, b) => panic!("utf8 verdict differs for {:x?}: {:?} vs {:?}", v, a.is_ok(), b.is_ok()),
    }
    if let Ok(s) = core::str::from_utf8(v) {
        assert_eq!(s.chars().count(), stdlite::count_chars(s), "count_chars {:x?}", v);
        assert_eq!(s.trim(), stdlite::trim_exact(s), "trim {:x?}", v);
    }
}

fn main() {
    let mut n = 0u64;
    // 1. all byte strings of length 0..=3
    check_utf8(&[], &mut n);
    for a in 0..=255u8 {
        check_utf8(&[a], &mut n);
        for b in 0..=255u8 {
            check_utf8(&[a, b], &mut n);
            for c in 0..=255u8 {
                check_utf8(&[a, b, c], &mut n);
            }
        }
    }
    // 2. length 4..=6 over the boundary bytes of the UTF-8 automaton
    let al: [u8; 21] = [0x00, 0x0a, 0x41, 0x7f, 0x80, 0x8f, 0x90, 0x9f, 0xa0, 0xbf, 0xc0, 0xc1, 0xc2, 0xdf, 0xe0, 0xe1, 0xed, 0xef, 0xf0, 0xf4, 0xf5];
    for &a in &al { for &b in &al { for &c in &al { for &d in &al {
        check_utf8(&[a, b, c, d], &mut n);
        check_utf8(&[0x41, a, b, c, d], &mut n);
        check_utf8(&[a, b, c, d, 0x41, 0xc3], &mut n);
    }}}}
    // 3. errors far from the start (table index up to MAX_UP_TO)
    for k in 0..stdlite::MAX_UP_TO {
        for tail in [&[0xffu8][..], &[0xc3][..], &[0xe1, 0x80, 0x41][..], &[0xf1, 0x80, 0x80, 0x41][..], &[0xf1, 0x80][..]] {
            let mut v = vec![b'x'; k];
            v.extend_from_slice(tail);
            check_utf8(&v, &mut n);
        }
    }
    // 3b. trim: every White_Space code point and its neighbours at both ends, and in the middle
    for cp in 0u32..=0x3100 {
        for d in [0i64, -1, 1] {
            let c = match char::from_u32((cp as i64 + d).max(0) as u32) { Some(c) => c, None => continue };
            assert_eq!(c.is_whitespace(), stdlite::is_white_space(c as u32), "is_white_space U+{:04X}", c as u32);
            for t in [format!("{c}a{c}"), format!("{c}{c}"), format!("a{c}b"), format!(" {c}x{c} "), format!("{c}")] {
                assert_eq!(t.trim(), stdlite::trim_exact(&t), "trim {:?}", t);
                n += 1;
            }
        }
    }
    for cp in [0x10000u32, 0x1F30D, 0x10FFFF, 0xE000, 0xFEFF, 0xFFFD] {
        let c = char::from_u32(cp).unwrap();
        for t in [format!(" {c} "), format!("{c} "), format!("\u{3000}{c}\u{2028}")] {
            assert_eq!(t.trim(), stdlite::trim_exact(&t), "trim {:?}", t);
        }
    }
    // 4. memchr / memrchr
    let hay_al = [b'a', b'\n', b'\r', 0xc3, 0xa9];
    let mut m = 0u64;
    for len in 0..=5usize {
        let total = hay_al.len().pow(len as u32);
        for code in 0..total {
            let mut c = code;
            let mut h = Vec::new();
            for _ in 0..len { h.push(hay_al[c % hay_al.len()]); c /= hay_al.len(); }
            for &x in &hay_al {
                assert_eq!(h.iter().position(|&y| y == x), stdlite::memchr(x, &h));
                assert_eq!(h.iter().rposition(|&y| y == x), stdlite::memrchr(x, &h));
                m += 1;
            }
        }
    }
    // 5. simd_contains vs str::contains, needles of 2..=3 bytes
    let sal = ['a', ':', ' ', '#', 'é'];
    let mut k = 0u64;
    let mut strings: Vec<String> = vec![String::new()];
    let mut frontier = vec![String::new()];
    for _ in 0..5 {
        let mut next = Vec::new();
        for s in &frontier { for &c in &sal { let mut t = s.clone(); t.push(c); next.push(t); } }
        strings.extend(next.iter().cloned());
        frontier = next;
    }
    let needles: Vec<&String> = strings.iter().filter(|s| s.len() >= 2 && s.len() <= 3).collect();
    for h in &strings {
        for nd in &needles {
            assert_eq!(Some(h.contains(nd.as_str())), stdlite::simd_contains(nd, h), "contains({:?},{:?})", h, nd);
            k += 1;
        }
    }
    let nl = check_numlook();
    println!("numeric_looking model == regex on {} strings", nl);
    println!("stdlite selftest ok: utf8/count_chars cases={} memchr cases={} contains cases={}", n, m, k);
}

#!/usr/bin/env python3
"""C19 sub-claim "ordinary float literals keep exactly the value they have without the extension",
f32 targets. With `angle_conversions` on, src/robotics.rs evaluates every scalar in f64 and narrows
with `v as f32` (impl FromF64 for f32); without it src/parse_scalars.rs calls `str::parse::<f32>`.

The model below is only used if that is still what the source says (checked textually on /repo's
current files); the witness the solver returns is then replayed natively through the real crate by
bin/check, which is what decides between "finding" and "not reproduced".

z3 query (FloatingPoint theory only, so it terminates in milliseconds): is there a binary64 value x
in [1,2) that lies exactly half-way between two adjacent binary32 values and whose round-to-nearest-
even narrowing goes DOWN? Any decimal literal slightly above such an x rounds to x in binary64
(first rounding), then down to the even neighbour (second rounding), whereas rounding the literal
directly to binary32 goes UP: the two pipelines differ in the last bit. `unsat` = no such x =
plain literals are unaffected by double rounding.
Prints one JSON line.
"""
import json, re, sys, time
from fractions import Fraction
from z3 import (Solver, FP, Float32, Float64, fpToFP, fpFPToFP, RNE, RTP, RTN, fpLT, fpGT, fpEQ, fpAdd, fpDiv,
                FPVal, Not, And, sat, fpLEQ, fpIsNormal)


def source_matches_model():
    rob = open("/repo/src/robotics.rs").read()
    ps = open("/repo/src/parse_scalars.rs").read()
    narrow = re.search(r"impl FromF64 for f32\s*\{[^}]*fn from_f64\(v: f64\) -> Self\s*\{\s*v as f32", rob, re.S) is not None
    always_f64 = "type Eval = (f64, bool, bool);" in rob and "Ok(T::from_f64(value))" in rob
    dispatch = re.search(r"if angle_conversions\s*\{\s*return crate::robotics::parse_yaml12_float_angle_converting", ps) is not None
    direct = "t.parse::<T>()" in ps
    return narrow and always_f64 and dispatch and direct


def main():
    t0 = time.time()
    out = {"encoding": "exists x:binary64 in [1,2): x == (RTN32(x)+RTP32(x))/2 exactly, RTN32(x) < x < RTP32(x), RNE32(x) == RTN32(x)", "solver": "z3 FloatingPoint"}
    if not source_matches_model():
        out.update({"status": "model-not-applicable", "seconds": 0.0})
        print(json.dumps(out))
        return
    x = FP("x", Float64())
    s = Solver()
    lo = fpFPToFP(RTN(), x, Float32())
    hi = fpFPToFP(RTP(), x, Float32())
    ne = fpFPToFP(RNE(), x, Float32())
    lo64 = fpFPToFP(RNE(), lo, Float64())   # exact (widening)
    hi64 = fpFPToFP(RNE(), hi, Float64())
    two = FPVal(2.0, Float64())
    mid = fpDiv(RNE(), fpAdd(RNE(), lo64, hi64), two)   # exact: one extra mantissa bit fits binary64
    s.add(fpLEQ(FPVal(1.0, Float64()), x), fpLT(x, two))
    s.add(fpLT(lo64, x), fpLT(x, hi64), fpEQ(mid, x), fpEQ(ne, lo))
    res = s.check()
    out["status"] = str(res)
    if res == sat:
        xv = s.model()[x]
        # exact decimal expansion of the binary64 value
        sign, exp, sig = xv.sign(), xv.exponent_as_long(False), xv.significand_as_long()
        frac = Fraction(sig, 2 ** 52) + 1
        val = frac * Fraction(2) ** exp
        val_scaled = val * 10 ** 60
        assert val_scaled.denominator == 1
        digits = str(val_scaled.numerator)
        lit = digits[:-60] + "." + digits[-60:]
        lit = lit[:-1] + "1"    # + 10^-60: strictly above the tie, far below half an ulp of binary64
        out["literal"] = lit
        out["binary64_hex"] = float(val).hex()
    out["seconds"] = round(time.time() - t0, 3)
    print(json.dumps(out))


if __name__ == "__main__":
    main()

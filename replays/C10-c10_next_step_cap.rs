// Counterexample(s) found by Kani/CBMC for property C10, harness c10_next_step_cap (buffered_input::verif::c10_next_step_cap)
// failed checks: [{"desc": "\"bytes of the next character consumed or left behind\"", "file": "/verif/harness/h_buffered_input.rs", "line": 165, "fn": "buffered_input::verif::next_step"}, {"desc": "\"input beyond the cap was not rejected with FileTooLarge\"", "file": "/verif/harness/h_buffered_input.rs", "line": 167, "fn": "buffered_input::verif::next_step"}]
// replay: /verif/bin/check --replay /verif/replays/C10-c10_next_step_cap.rs
//HARNESS c10_next_step_cap
/// Test generated for harness `buffered_input::verif::c10_next_step_cap` 
///
/// Check for `assertion`: ""bytes of the next character consumed or left behind""
///
/// # Warning
///
/// Concrete playback tests combined with stubs or contracts is highly
/// experimental, and subject to change.
///
/// The original harness has stubs which are not applied to this test.
/// This may cause a mismatch of non-deterministic values if the stub
/// creates any non-deterministic value.
/// The execution path may also differ, which can be used to refine the stub
/// logic.

#[test]
fn kani_concrete_playback_c10_next_step_cap_5908837153511786825() {
    let concrete_vals: Vec<Vec<u8>> = vec![
        // 217
        vec![217],
        // 191
        vec![191],
        // 190
        vec![190],
        // 190
        vec![190],
        // 2ul
        vec![2, 0, 0, 0, 0, 0, 0, 0],
        // 251
        vec![251],
        // 9223372036854775806ul
        vec![254, 255, 255, 255, 255, 255, 255, 127],
        // 9223372036854775806ul
        vec![254, 255, 255, 255, 255, 255, 255, 127],
        // 1ul
        vec![1, 0, 0, 0, 0, 0, 0, 0],
    ];
    kani::concrete_playback_run(concrete_vals, c10_next_step_cap);
}

/// Test generated for harness `buffered_input::verif::c10_next_step_cap` 
///
/// Check for `assertion`: ""input beyond the cap was not rejected with FileTooLarge""
///
/// # Warning
///
/// Concrete playback tests combined with stubs or contracts is highly
/// experimental, and subject to change.
///
/// The original harness has stubs which are not applied to this test.
/// This may cause a mismatch of non-deterministic values if the stub
/// creates any non-deterministic value.
/// The execution path may also differ, which can be used to refine the stub
/// logic.

#[test]
fn kani_concrete_playback_c10_next_step_cap_13796877014268679078() {
    let concrete_vals: Vec<Vec<u8>> = vec![
        // 242
        vec![242],
        // 128
        vec![128],
        // 129
        vec![129],
        // 142
        vec![142],
        // 4ul
        vec![4, 0, 0, 0, 0, 0, 0, 0],
        // 251
        vec![251],
        // 8791026472627208194ul
        vec![2, 0, 0, 0, 0, 0, 0, 122],
        // 8791026472627208191ul
        vec![255, 255, 255, 255, 255, 255, 255, 121],
        // 1ul
        vec![1, 0, 0, 0, 0, 0, 0, 0],
        // 1ul
        vec![1, 0, 0, 0, 0, 0, 0, 0],
        // 1ul
        vec![1, 0, 0, 0, 0, 0, 0, 0],
        // 1ul
        vec![1, 0, 0, 0, 0, 0, 0, 0],
    ];
    kani::concrete_playback_run(concrete_vals, c10_next_step_cap);
}

// Counterexample(s) found by Kani/CBMC for property C17, harness c17_crop_line_4 (de_snipped::verif::c17_crop_line_4)
// failed checks: [{"desc": "This is a placeholder message; Kani doesn't support message formatted at runtime", "file": "/home/runner/.rustup/toolchains/nightly-2026-08-21-x86_64-unknown-linux-gnu/lib/rustlib/src/rust/library/core/src/str/traits.rs", "line": 335, "fn": "core::str::traits::<impl std::slice::SliceIndex<str> for std::range::Range<usize>>::index"}]
// replay: /verif/bin/check --replay /verif/replays/C17-c17_crop_line_4.rs
//HARNESS c17_crop_line_4
/// Test generated for harness `de_snipped::verif::c17_crop_line_4` 
///
/// Check for `assertion`: "This is a placeholder message; Kani doesn't support message formatted at runtime"
///
/// # Warning
///
/// Concrete playback tests combined with stubs or contracts is highly
/// experimental, and subject to change.
///
/// The original harness has stubs which are not applied to this test.
/// This may cause a mismatch of non-deterministic values if the stub
/// creates any non-deterministic value.
/// The execution path may also differ, which can be used to refine the stub
/// logic.

#[test]
fn kani_concrete_playback_c17_crop_line_4_12936003909045359802() {
    let concrete_vals: Vec<Vec<u8>> = vec![
        // 194
        vec![194],
        // 138
        vec![138],
        // 196
        vec![196],
        // 141
        vec![141],
        // 0ul
        vec![0, 0, 0, 0, 0, 0, 0, 0],
        // 1ul
        vec![1, 0, 0, 0, 0, 0, 0, 0],
    ];
    kani::concrete_playback_run(concrete_vals, c17_crop_line_4);
}

// Counterexample(s) found by Kani/CBMC for property C04, harness c04_scalar_key_identity (de::verif::c04_scalar_key_identity)
// failed checks: [{"desc": "\"the same key text written in another quoting style is not recognised as the same key\"", "file": "/verif/harness/h_de.rs", "line": 177, "fn": "de::verif::c04_scalar_key_identity"}]
// replay: /verif/bin/check --replay /verif/replays/C04-c04_scalar_key_identity.rs
//HARNESS c04_scalar_key_identity
/// Test generated for harness `de::verif::c04_scalar_key_identity` 
///
/// Check for `assertion`: ""the same key text written in another quoting style is not recognised as the same key""

#[test]
fn kani_concrete_playback_c04_scalar_key_identity_4303660259485364879() {
    let concrete_vals: Vec<Vec<u8>> = vec![
        // 18446744073709551615ul
        vec![255, 255, 255, 255, 255, 255, 255, 255],
        // 251
        vec![251],
        // 18446744073709551615ul
        vec![255, 255, 255, 255, 255, 255, 255, 255],
    ];
    kani::concrete_playback_run(concrete_vals, c04_scalar_key_identity);
}

// Counterexample(s) found by Kani/CBMC for property C06, harness c06_float_special_6 (parse_scalars::verif::c06_float_special_6)
// failed checks: [{"desc": "\"a token that is no float notation was accepted\"", "file": "/verif/harness/h_parse_scalars.rs", "line": 577, "fn": "parse_scalars::verif::float_special_n::<6>"}]
// replay: /verif/bin/check --replay /verif/replays/C06-c06_float_special_6.rs
//HARNESS c06_float_special_6
/// Test generated for harness `parse_scalars::verif::c06_float_special_6` 
///
/// Check for `assertion`: ""a token that is no float notation was accepted""
///
/// # Warning
///
/// Concrete playback tests combined with stubs or contracts is highly
/// experimental, and subject to change.
///
/// The original harness has stubs which are not applied to this test.
/// This may cause a mismatch of non-deterministic values if the stub
/// creates any non-deterministic value.
/// The execution path may also differ, which can be used to refine the stub
/// logic.

#[test]
fn kani_concrete_playback_c06_float_special_6_567458144989148067() {
    let concrete_vals: Vec<Vec<u8>> = vec![
        // 45
        vec![45],
        // 43
        vec![43],
        // 46
        vec![46],
        // 110
        vec![110],
        // 97
        vec![97],
        // 78
        vec![78],
    ];
    kani::concrete_playback_run(concrete_vals, c06_float_special_6);
}

// Counterexample(s) found by Kani/CBMC for property C17, harness c17_sanitize_4 (de_snipped::verif::c17_sanitize_4)
// failed checks: [{"desc": "\"control character survives sanitising\"", "file": "/verif/harness/h_snippet.rs", "line": 58, "fn": "de_snipped::verif::sanitize_n::<4>"}]
// replay: /verif/bin/check --replay /verif/replays/C17-c17_sanitize_4.rs
//HARNESS c17_sanitize_4
/// Test generated for harness `de_snipped::verif::c17_sanitize_4` 
///
/// Check for `assertion`: ""control character survives sanitising""
///
/// # Warning
///
/// Concrete playback tests combined with stubs or contracts is highly
/// experimental, and subject to change.
///
/// The original harness has stubs which are not applied to this test.
/// This may cause a mismatch of non-deterministic values if the stub
/// creates any non-deterministic value.
/// The execution path may also differ, which can be used to refine the stub
/// logic.

#[test]
fn kani_concrete_playback_c17_sanitize_4_8703519053224547933() {
    let concrete_vals: Vec<Vec<u8>> = vec![
        // 195
        vec![195],
        // 176
        vec![176],
        // 12
        vec![12],
        // 115
        vec![115],
    ];
    kani::concrete_playback_run(concrete_vals, c17_sanitize_4);
}

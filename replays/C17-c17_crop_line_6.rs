// Counterexample(s) found by Kani/CBMC for property C17, harness c17_crop_line_6 (de_snipped::verif::c17_crop_line_6)
// failed checks: [{"desc": "\"cropped line wider than the window\"", "file": "/verif/harness/h_snippet.rs", "line": 117, "fn": "de_snipped::verif::crop_line_n::<6>"}, {"desc": "unwinding assertion loop 0", "file": "/verif/harness/h_snippet.rs", "line": 36, "fn": "de_snipped::verif::ref_chars"}]
// replay: /verif/bin/check --replay /verif/replays/C17-c17_crop_line_6.rs
//HARNESS c17_crop_line_6
/// Test generated for harness `de_snipped::verif::c17_crop_line_6` 
///
/// Check for `assertion`: ""cropped line wider than the window""
///
/// # Warning
///
/// Concrete playback tests combined with stubs or contracts is highly
/// experimental, and subject to change.
///
/// The original harness has stubs which are not applied to this test.
/// This may cause a mismatch of non-deterministic values if the stub
/// creates any non-deterministic value.
/// The execution path may also differ, which can be used to refine the stub
/// logic.

#[test]
fn kani_concrete_playback_c17_crop_line_6_5531952531947486195() {
    let concrete_vals: Vec<Vec<u8>> = vec![
        // 87
        vec![87],
        // 95
        vec![95],
        // 95
        vec![95],
        // 108
        vec![108],
        // 63
        vec![63],
        // 31
        vec![31],
        // 8ul
        vec![8, 0, 0, 0, 0, 0, 0, 0],
        // 1ul
        vec![1, 0, 0, 0, 0, 0, 0, 0],
    ];
    kani::concrete_playback_run(concrete_vals, c17_crop_line_6);
}

// Counterexample(s) found by Kani/CBMC for property C12, harness c12_leading_spaces_4 (wrapping::verif::c12_leading_spaces_4)
// failed checks: [{"desc": "\"leading spaces of the first non-empty line miscounted (indentation indicator decision)\"", "file": "/verif/harness/h_wrapping.rs", "line": 55, "fn": "wrapping::verif::leading_spaces_n::<4>"}]
// replay: /verif/bin/check --replay /verif/replays/C12-c12_leading_spaces_4.rs
//HARNESS c12_leading_spaces_4
/// Test generated for harness `wrapping::verif::c12_leading_spaces_4` 
///
/// Check for `assertion`: ""leading spaces of the first non-empty line miscounted (indentation indicator decision)""
///
/// # Warning
///
/// Concrete playback tests combined with stubs or contracts is highly
/// experimental, and subject to change.
///
/// The original harness has stubs which are not applied to this test.
/// This may cause a mismatch of non-deterministic values if the stub
/// creates any non-deterministic value.
/// The execution path may also differ, which can be used to refine the stub
/// logic.

#[test]
fn kani_concrete_playback_c12_leading_spaces_4_13467280995401512004() {
    let concrete_vals: Vec<Vec<u8>> = vec![
        // 32
        vec![32],
        // 10
        vec![10],
        // 65
        vec![65],
        // 9
        vec![9],
    ];
    kani::concrete_playback_run(concrete_vals, c12_leading_spaces_4);
}

// Counterexample(s) found by Kani/CBMC for property C07, harness c07_bb_keymap_mergelimit (budget::verif::c07_bb_keymap_mergelimit)
// failed checks: [{"desc": "\"verdict of observe() differs from the independent count at this event\"", "file": "/verif/harness/h_budget.rs", "line": 250, "fn": "budget::verif::scenario::<10>"}, {"desc": "\"report differs from the independent count\"", "file": "/verif/harness/h_budget.rs", "line": 261, "fn": "budget::verif::scenario::<10>"}]
// replay: /verif/bin/check --replay /verif/replays/C07-c07_bb_keymap_mergelimit.rs
//HARNESS c07_bb_keymap_mergelimit
/// Test generated for harness `budget::verif::c07_bb_keymap_mergelimit` 
///
/// Check for `assertion`: ""verdict of observe() differs from the independent count at this event""
///
/// # Warning
///
/// Concrete playback tests combined with stubs or contracts is highly
/// experimental, and subject to change.
///
/// The original harness has stubs which are not applied to this test.
/// This may cause a mismatch of non-deterministic values if the stub
/// creates any non-deterministic value.
/// The execution path may also differ, which can be used to refine the stub
/// logic.

#[test]
fn kani_concrete_playback_c07_bb_keymap_mergelimit_2865269336286150880() {
    let concrete_vals: Vec<Vec<u8>> = vec![
        // 0ul
        vec![0, 0, 0, 0, 0, 0, 0, 0],
    ];
    kani::concrete_playback_run(concrete_vals, c07_bb_keymap_mergelimit);
}

/// Test generated for harness `budget::verif::c07_bb_keymap_mergelimit` 
///
/// Check for `assertion`: ""report differs from the independent count""
///
/// # Warning
///
/// Concrete playback tests combined with stubs or contracts is highly
/// experimental, and subject to change.
///
/// The original harness has stubs which are not applied to this test.
/// This may cause a mismatch of non-deterministic values if the stub
/// creates any non-deterministic value.
/// The execution path may also differ, which can be used to refine the stub
/// logic.

#[test]
fn kani_concrete_playback_c07_bb_keymap_mergelimit_13289029044478882625() {
    let concrete_vals: Vec<Vec<u8>> = vec![
        // 9223372036854775808ul
        vec![0, 0, 0, 0, 0, 0, 0, 128],
    ];
    kani::concrete_playback_run(concrete_vals, c07_bb_keymap_mergelimit);
}

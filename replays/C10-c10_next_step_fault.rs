// Counterexample(s) found by Kani/CBMC for property C10, harness c10_next_step_fault (buffered_input::verif::c10_next_step_fault)
// failed checks: [{"desc": "\"the reader reported an I/O error and the input simply ended: error swallowed\"", "file": "/verif/harness/h_buffered_input.rs", "line": 159, "fn": "buffered_input::verif::next_step"}]
// replay: /verif/bin/check --replay /verif/replays/C10-c10_next_step_fault.rs
//HARNESS c10_next_step_fault
/// Test generated for harness `buffered_input::verif::c10_next_step_fault` 
///
/// Check for `assertion`: ""the reader reported an I/O error and the input simply ended: error swallowed""
///
/// # Warning
///
/// Concrete playback tests combined with stubs or contracts is highly
/// experimental, and subject to change.
///
/// The original harness has stubs which are not applied to this test.
/// This may cause a mismatch of non-deterministic values if the stub
/// creates any non-deterministic value.
/// The execution path may also differ, which can be used to refine the stub
/// logic.

#[test]
fn kani_concrete_playback_c10_next_step_fault_12865248249032496273() {
    let concrete_vals: Vec<Vec<u8>> = vec![
        // 229
        vec![229],
        // 129
        vec![129],
        // 191
        vec![191],
        // 191
        vec![191],
        // 1ul
        vec![1, 0, 0, 0, 0, 0, 0, 0],
        // 0ul
        vec![0, 0, 0, 0, 0, 0, 0, 0],
        // 181
        vec![181],
        // 18446744073709551615ul
        vec![255, 255, 255, 255, 255, 255, 255, 255],
        // 9223372036854775839ul
        vec![31, 0, 0, 0, 0, 0, 0, 128],
    ];
    kani::concrete_playback_run(concrete_vals, c10_next_step_fault);
}

// Counterexample(s) found by Kani/CBMC for property C06, harness c06_hex32_top_i128_neg_0 (parse_scalars::verif::c06_hex32_top_i128_neg_0)
// failed checks: [{"desc": "\"in-range integer rejected\"", "file": "/verif/harness/h_parse_scalars.rs", "line": 410, "fn": "parse_scalars::verif::c06_hex32_top_i128_neg_0"}]
// replay: /verif/bin/check --replay /verif/replays/C06-c06_hex32_top_i128_neg_0.rs
//HARNESS c06_hex32_top_i128_neg_0
/// Test generated for harness `parse_scalars::verif::c06_hex32_top_i128_neg_0` 
///
/// Check for `assertion`: ""in-range integer rejected""
///
/// # Warning
///
/// Concrete playback tests combined with stubs or contracts is highly
/// experimental, and subject to change.
///
/// The original harness has stubs which are not applied to this test.
/// This may cause a mismatch of non-deterministic values if the stub
/// creates any non-deterministic value.
/// The execution path may also differ, which can be used to refine the stub
/// logic.

#[test]
fn kani_concrete_playback_c06_hex32_top_i128_neg_0_7853186318203734300() {
    let concrete_vals: Vec<Vec<u8>> = vec![
        // 8
        vec![8],
        // 0
        vec![0],
    ];
    kani::concrete_playback_run(concrete_vals, c06_hex32_top_i128_neg_0);
}

// Counterexample(s) found by Kani/CBMC for property C12, harness c12_wordlike_4 (ser_quoting::verif::c12_wordlike_4)
// failed checks: [{"desc": "\"a word-like value is emitted plain although it reads back as something else\"", "file": "/verif/harness/h_ser_quoting.rs", "line": 276, "fn": "ser_quoting::verif::wordlike_n::<4>"}, {"desc": "\"a word-like key is emitted plain although it reads back as something else\"", "file": "/verif/harness/h_ser_quoting.rs", "line": 283, "fn": "ser_quoting::verif::wordlike_n::<4>"}]
// replay: /verif/bin/check --replay /verif/replays/C12-c12_wordlike_4.rs
//HARNESS c12_wordlike_4
/// Test generated for harness `ser_quoting::verif::c12_wordlike_4` 
///
/// Check for `assertion`: ""a word-like value is emitted plain although it reads back as something else""
///
/// # Warning
///
/// Concrete playback tests combined with stubs or contracts is highly
/// experimental, and subject to change.
///
/// The original harness has stubs which are not applied to this test.
/// This may cause a mismatch of non-deterministic values if the stub
/// creates any non-deterministic value.
/// The execution path may also differ, which can be used to refine the stub
/// logic.

#[test]
fn kani_concrete_playback_c12_wordlike_4_13576089657949527934() {
    let concrete_vals: Vec<Vec<u8>> = vec![
        // 110
        vec![110],
        // 85
        vec![85],
        // 76
        vec![76],
        // 76
        vec![76],
        // 0
        vec![0],
    ];
    kani::concrete_playback_run(concrete_vals, c12_wordlike_4);
}

/// Test generated for harness `ser_quoting::verif::c12_wordlike_4` 
///
/// Check for `assertion`: ""a word-like key is emitted plain although it reads back as something else""
///
/// # Warning
///
/// Concrete playback tests combined with stubs or contracts is highly
/// experimental, and subject to change.
///
/// The original harness has stubs which are not applied to this test.
/// This may cause a mismatch of non-deterministic values if the stub
/// creates any non-deterministic value.
/// The execution path may also differ, which can be used to refine the stub
/// logic.

#[test]
fn kani_concrete_playback_c12_wordlike_4_7361595754012436217() {
    let concrete_vals: Vec<Vec<u8>> = vec![
        // 116
        vec![116],
        // 82
        vec![82],
        // 117
        vec![117],
        // 101
        vec![101],
        // 0
        vec![0],
    ];
    kani::concrete_playback_run(concrete_vals, c12_wordlike_4);
}

// Counterexample(s) found by Kani/CBMC for property C12, harness c12_wordlike_4 (ser_quoting::verif::c12_wordlike_4)
// failed checks: [{"desc": "\"a word-like key is emitted plain although it reads back as something else\"", "file": "/verif/harness/h_ser_quoting.rs", "line": 270, "fn": "ser_quoting::verif::wordlike_n::<4>"}]
// replay: /verif/bin/check --replay /verif/replays/C12-c12_wordlike_4.rs
//HARNESS c12_wordlike_4
/// Test generated for harness `ser_quoting::verif::c12_wordlike_4` 
///
/// Check for `assertion`: ""a word-like key is emitted plain although it reads back as something else""
///
/// # Warning
///
/// Concrete playback tests combined with stubs or contracts is highly
/// experimental, and subject to change.
///
/// The original harness has stubs which are not applied to this test.
/// This may cause a mismatch of non-deterministic values if the stub
/// creates any non-deterministic value.
/// The execution path may also differ, which can be used to refine the stub
/// logic.

#[test]
fn kani_concrete_playback_c12_wordlike_4_16836529028803579047() {
    let concrete_vals: Vec<Vec<u8>> = vec![
        // 43
        vec![43],
        // 110
        vec![110],
        // 97
        vec![97],
        // 110
        vec![110],
        // 1
        vec![1],
    ];
    kani::concrete_playback_run(concrete_vals, c12_wordlike_4);
}

// Counterexample(s) found by Kani/CBMC for property C07, harness c07_perdoc_reset (budget::verif::c07_perdoc_reset)
// failed checks: [{"desc": "\"usage counters of earlier documents leak into the next document\"", "file": "/verif/harness/wb/h_budget_wb.rs", "line": 616, "fn": "budget::verif::c07_perdoc_reset"}, {"desc": "assertion failed: e1.containers.len() == e2.containers.len()", "file": "/verif/harness/wb/h_budget_wb.rs", "line": 625, "fn": "budget::verif::c07_perdoc_reset"}]
// replay: /verif/bin/check --replay /verif/replays/C07-c07_perdoc_reset.rs
//HARNESS c07_perdoc_reset
/// Test generated for harness `budget::verif::c07_perdoc_reset` 
///
/// Check for `assertion`: ""usage counters of earlier documents leak into the next document""

#[test]
fn kani_concrete_playback_c07_perdoc_reset_17330570229566069130() {
    let concrete_vals: Vec<Vec<u8>> = vec![
        // 1ul
        vec![1, 0, 0, 0, 0, 0, 0, 0],
        // 0ul
        vec![0, 0, 0, 0, 0, 0, 0, 0],
        // 0ul
        vec![0, 0, 0, 0, 0, 0, 0, 0],
        // 4ul
        vec![4, 0, 0, 0, 0, 0, 0, 0],
        // 0ul
        vec![0, 0, 0, 0, 0, 0, 0, 0],
        // 0ul
        vec![0, 0, 0, 0, 0, 0, 0, 0],
        // 0ul
        vec![0, 0, 0, 0, 0, 0, 0, 0],
        // 0ul
        vec![0, 0, 0, 0, 0, 0, 0, 0],
        // 0
        vec![0],
        // 0ul
        vec![0, 0, 0, 0, 0, 0, 0, 0],
        // 0ul
        vec![0, 0, 0, 0, 0, 0, 0, 0],
        // 0ul
        vec![0, 0, 0, 0, 0, 0, 0, 0],
        // 0ul
        vec![0, 0, 0, 0, 0, 0, 0, 0],
        // 0ul
        vec![0, 0, 0, 0, 0, 0, 0, 0],
        // 0ul
        vec![0, 0, 0, 0, 0, 0, 0, 0],
        // 4ul
        vec![4, 0, 0, 0, 0, 0, 0, 0],
        // 0ul
        vec![0, 0, 0, 0, 0, 0, 0, 0],
        // 0ul
        vec![0, 0, 0, 0, 0, 0, 0, 0],
        // 1ul
        vec![1, 0, 0, 0, 0, 0, 0, 0],
        // 0ul
        vec![0, 0, 0, 0, 0, 0, 0, 0],
        // 0ul
        vec![0, 0, 0, 0, 0, 0, 0, 0],
        // 0ul
        vec![0, 0, 0, 0, 0, 0, 0, 0],
        // 0ul
        vec![0, 0, 0, 0, 0, 0, 0, 0],
        // 0ul
        vec![0, 0, 0, 0, 0, 0, 0, 0],
        // 0ul
        vec![0, 0, 0, 0, 0, 0, 0, 0],
        // 0ul
        vec![0, 0, 0, 0, 0, 0, 0, 0],
        // 0ul
        vec![0, 0, 0, 0, 0, 0, 0, 0],
        // 0ul
        vec![0, 0, 0, 0, 0, 0, 0, 0],
        // 0
        vec![0],
        // 0
        vec![0],
    ];
    kani::concrete_playback_run(concrete_vals, c07_perdoc_reset);
}

/// Test generated for harness `budget::verif::c07_perdoc_reset` 
///
/// Check for `assertion`: "assertion failed: e1.containers.len() == e2.containers.len()"

#[test]
fn kani_concrete_playback_c07_perdoc_reset_15167850633963621883() {
    let concrete_vals: Vec<Vec<u8>> = vec![
        // 1ul
        vec![1, 0, 0, 0, 0, 0, 0, 0],
        // 0ul
        vec![0, 0, 0, 0, 0, 0, 0, 0],
        // 0ul
        vec![0, 0, 0, 0, 0, 0, 0, 0],
        // 4ul
        vec![4, 0, 0, 0, 0, 0, 0, 0],
        // 0ul
        vec![0, 0, 0, 0, 0, 0, 0, 0],
        // 0ul
        vec![0, 0, 0, 0, 0, 0, 0, 0],
        // 0ul
        vec![0, 0, 0, 0, 0, 0, 0, 0],
        // 0ul
        vec![0, 0, 0, 0, 0, 0, 0, 0],
        // 0
        vec![0],
        // 0ul
        vec![0, 0, 0, 0, 0, 0, 0, 0],
        // 0ul
        vec![0, 0, 0, 0, 0, 0, 0, 0],
        // 0ul
        vec![0, 0, 0, 0, 0, 0, 0, 0],
        // 0ul
        vec![0, 0, 0, 0, 0, 0, 0, 0],
        // 0ul
        vec![0, 0, 0, 0, 0, 0, 0, 0],
        // 0ul
        vec![0, 0, 0, 0, 0, 0, 0, 0],
        // 4ul
        vec![4, 0, 0, 0, 0, 0, 0, 0],
        // 0ul
        vec![0, 0, 0, 0, 0, 0, 0, 0],
        // 0ul
        vec![0, 0, 0, 0, 0, 0, 0, 0],
        // 0ul
        vec![0, 0, 0, 0, 0, 0, 0, 0],
        // 0ul
        vec![0, 0, 0, 0, 0, 0, 0, 0],
        // 0ul
        vec![0, 0, 0, 0, 0, 0, 0, 0],
        // 0ul
        vec![0, 0, 0, 0, 0, 0, 0, 0],
        // 0ul
        vec![0, 0, 0, 0, 0, 0, 0, 0],
        // 0ul
        vec![0, 0, 0, 0, 0, 0, 0, 0],
        // 0ul
        vec![0, 0, 0, 0, 0, 0, 0, 0],
        // 0ul
        vec![0, 0, 0, 0, 0, 0, 0, 0],
        // 0ul
        vec![0, 0, 0, 0, 0, 0, 0, 0],
        // 0ul
        vec![0, 0, 0, 0, 0, 0, 0, 0],
        // 1
        vec![1],
        // 0
        vec![0],
        // 0
        vec![0],
        // 0
        vec![0],
        // 0
        vec![0],
    ];
    kani::concrete_playback_run(concrete_vals, c07_perdoc_reset);
}

// Counterexample(s) found by Kani/CBMC for property C01, harness c09_next_step_chunking (buffered_input::verif::c09_next_step_chunking)
// failed checks: [{"desc": "\"the reader is polled again and again without progress: the step does not terminate\"", "file": "/verif/harness/h_buffered_input.rs", "line": 48, "fn": "<buffered_input::verif::StubReader<4> as std::io::Read>::read"}]
// replay: /verif/bin/check --replay /verif/replays/C01-c09_next_step_chunking.rs
//HARNESS c09_next_step_chunking
/// Test generated for harness `buffered_input::verif::c09_next_step_chunking` 
///
/// Check for `assertion`: ""the reader is polled again and again without progress: the step does not terminate""
///
/// # Warning
///
/// Concrete playback tests combined with stubs or contracts is highly
/// experimental, and subject to change.
///
/// The original harness has stubs which are not applied to this test.
/// This may cause a mismatch of non-deterministic values if the stub
/// creates any non-deterministic value.
/// The execution path may also differ, which can be used to refine the stub
/// logic.

#[test]
fn kani_concrete_playback_c09_next_step_chunking_17938709423893611258() {
    let concrete_vals: Vec<Vec<u8>> = vec![
        // 223
        vec![223],
        // 255
        vec![255],
        // 255
        vec![255],
        // 255
        vec![255],
        // 1ul
        vec![1, 0, 0, 0, 0, 0, 0, 0],
        // 255
        vec![255],
        // 18446744073709551615ul
        vec![255, 255, 255, 255, 255, 255, 255, 255],
        // 9223372036854775807ul
        vec![255, 255, 255, 255, 255, 255, 255, 127],
        // 1ul
        vec![1, 0, 0, 0, 0, 0, 0, 0],
    ];
    kani::concrete_playback_run(concrete_vals, c09_next_step_chunking);
}

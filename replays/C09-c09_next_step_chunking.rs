// Counterexample(s) found by Kani/CBMC for property C09, harness c09_next_step_chunking (buffered_input::verif::c09_next_step_chunking)
// failed checks: [{"desc": "\"a character was produced from invalid or truncated UTF-8\"", "file": "/verif/harness/h_buffered_input.rs", "line": 178, "fn": "buffered_input::verif::next_step"}, {"desc": "\"bytes of the next character consumed or left behind\"", "file": "/verif/harness/h_buffered_input.rs", "line": 165, "fn": "buffered_input::verif::next_step"}, {"desc": "\"valid input within the cap reported as error\"", "file": "/verif/harness/h_buffered_input.rs", "line": 169, "fn": "buffered_input::verif::next_step"}]
// replay: /verif/bin/check --replay /verif/replays/C09-c09_next_step_chunking.rs
//HARNESS c09_next_step_chunking
/// Test generated for harness `buffered_input::verif::c09_next_step_chunking` 
///
/// Check for `assertion`: ""a character was produced from invalid or truncated UTF-8""
///
/// # Warning
///
/// Concrete playback tests combined with stubs or contracts is highly
/// experimental, and subject to change.
///
/// The original harness has stubs which are not applied to this test.
/// This may cause a mismatch of non-deterministic values if the stub
/// creates any non-deterministic value.
/// The execution path may also differ, which can be used to refine the stub
/// logic.

#[test]
fn kani_concrete_playback_c09_next_step_chunking_2300485611904132749() {
    let concrete_vals: Vec<Vec<u8>> = vec![
        // 237
        vec![237],
        // 160
        vec![160],
        // 129
        vec![129],
        // 131
        vec![131],
        // 4ul
        vec![4, 0, 0, 0, 0, 0, 0, 0],
        // 111
        vec![111],
        // 18446744073709551615ul
        vec![255, 255, 255, 255, 255, 255, 255, 255],
        // 4611686018427387923ul
        vec![19, 0, 0, 0, 0, 0, 0, 64],
        // 1ul
        vec![1, 0, 0, 0, 0, 0, 0, 0],
        // 1ul
        vec![1, 0, 0, 0, 0, 0, 0, 0],
        // 2ul
        vec![2, 0, 0, 0, 0, 0, 0, 0],
    ];
    kani::concrete_playback_run(concrete_vals, c09_next_step_chunking);
}

/// Test generated for harness `buffered_input::verif::c09_next_step_chunking` 
///
/// Check for `assertion`: ""bytes of the next character consumed or left behind""
///
/// # Warning
///
/// Concrete playback tests combined with stubs or contracts is highly
/// experimental, and subject to change.
///
/// The original harness has stubs which are not applied to this test.
/// This may cause a mismatch of non-deterministic values if the stub
/// creates any non-deterministic value.
/// The execution path may also differ, which can be used to refine the stub
/// logic.

#[test]
fn kani_concrete_playback_c09_next_step_chunking_3524225040948002205() {
    let concrete_vals: Vec<Vec<u8>> = vec![
        // 224
        vec![224],
        // 163
        vec![163],
        // 163
        vec![163],
        // 163
        vec![163],
        // 4ul
        vec![4, 0, 0, 0, 0, 0, 0, 0],
        // 111
        vec![111],
        // 18446744073709551615ul
        vec![255, 255, 255, 255, 255, 255, 255, 255],
        // 3458764513820540925ul
        vec![253, 255, 255, 255, 255, 255, 255, 47],
        // 1ul
        vec![1, 0, 0, 0, 0, 0, 0, 0],
        // 1ul
        vec![1, 0, 0, 0, 0, 0, 0, 0],
        // 2ul
        vec![2, 0, 0, 0, 0, 0, 0, 0],
    ];
    kani::concrete_playback_run(concrete_vals, c09_next_step_chunking);
}

/// Test generated for harness `buffered_input::verif::c09_next_step_chunking` 
///
/// Check for `assertion`: ""valid input within the cap reported as error""
///
/// # Warning
///
/// Concrete playback tests combined with stubs or contracts is highly
/// experimental, and subject to change.
///
/// The original harness has stubs which are not applied to this test.
/// This may cause a mismatch of non-deterministic values if the stub
/// creates any non-deterministic value.
/// The execution path may also differ, which can be used to refine the stub
/// logic.

#[test]
fn kani_concrete_playback_c09_next_step_chunking_14328390764608216529() {
    let concrete_vals: Vec<Vec<u8>> = vec![
        // 240
        vec![240],
        // 160
        vec![160],
        // 128
        vec![128],
        // 128
        vec![128],
        // 4ul
        vec![4, 0, 0, 0, 0, 0, 0, 0],
        // 0
        vec![0],
        // 0ul
        vec![0, 0, 0, 0, 0, 0, 0, 0],
        // 0ul
        vec![0, 0, 0, 0, 0, 0, 0, 0],
        // 1ul
        vec![1, 0, 0, 0, 0, 0, 0, 0],
        // 1ul
        vec![1, 0, 0, 0, 0, 0, 0, 0],
        // 1ul
        vec![1, 0, 0, 0, 0, 0, 0, 0],
        // 1ul
        vec![1, 0, 0, 0, 0, 0, 0, 0],
    ];
    kani::concrete_playback_run(concrete_vals, c09_next_step_chunking);
}

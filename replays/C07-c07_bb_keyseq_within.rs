// Counterexample(s) found by Kani/CBMC for property C07, harness c07_bb_keyseq_within (budget::verif::c07_bb_keyseq_within)
// failed checks: [{"desc": "\"verdict of observe() differs from the independent count at this event\"", "file": "/verif/harness/h_budget.rs", "line": 250, "fn": "budget::verif::scenario::<8>"}, {"desc": "\"report differs from the independent count\"", "file": "/verif/harness/h_budget.rs", "line": 261, "fn": "budget::verif::scenario::<8>"}]
// replay: /verif/bin/check --replay /verif/replays/C07-c07_bb_keyseq_within.rs
//HARNESS c07_bb_keyseq_within
/// Test generated for harness `budget::verif::c07_bb_keyseq_within` 
///
/// Check for `assertion`: ""verdict of observe() differs from the independent count at this event""
///
/// # Warning
///
/// Concrete playback tests combined with stubs or contracts is highly
/// experimental, and subject to change.
///
/// The original harness has stubs which are not applied to this test.
/// This may cause a mismatch of non-deterministic values if the stub
/// creates any non-deterministic value.
/// The execution path may also differ, which can be used to refine the stub
/// logic.

#[test]
fn kani_concrete_playback_c07_bb_keyseq_within_11144999177049617564() {
    let concrete_vals: Vec<Vec<u8>> = vec![
        // 5ul
        vec![5, 0, 0, 0, 0, 0, 0, 0],
        // 18446744073709551615ul
        vec![255, 255, 255, 255, 255, 255, 255, 255],
        // 18446744073709551615ul
        vec![255, 255, 255, 255, 255, 255, 255, 255],
        // 2ul
        vec![2, 0, 0, 0, 0, 0, 0, 0],
        // 18446744073709551615ul
        vec![255, 255, 255, 255, 255, 255, 255, 255],
        // 15ul
        vec![15, 0, 0, 0, 0, 0, 0, 0],
        // 7ul
        vec![7, 0, 0, 0, 0, 0, 0, 0],
        // 0ul
        vec![0, 0, 0, 0, 0, 0, 0, 0],
        // 1
        vec![1],
        // 0ul
        vec![0, 0, 0, 0, 0, 0, 0, 0],
        // 18446744073709551615ul
        vec![255, 255, 255, 255, 255, 255, 255, 255],
    ];
    kani::concrete_playback_run(concrete_vals, c07_bb_keyseq_within);
}

/// Test generated for harness `budget::verif::c07_bb_keyseq_within` 
///
/// Check for `assertion`: ""report differs from the independent count""
///
/// # Warning
///
/// Concrete playback tests combined with stubs or contracts is highly
/// experimental, and subject to change.
///
/// The original harness has stubs which are not applied to this test.
/// This may cause a mismatch of non-deterministic values if the stub
/// creates any non-deterministic value.
/// The execution path may also differ, which can be used to refine the stub
/// logic.

#[test]
fn kani_concrete_playback_c07_bb_keyseq_within_17458277766895060144() {
    let concrete_vals: Vec<Vec<u8>> = vec![
        // 18446744073709551615ul
        vec![255, 255, 255, 255, 255, 255, 255, 255],
        // 18446744073709551615ul
        vec![255, 255, 255, 255, 255, 255, 255, 255],
        // 18446744073709551615ul
        vec![255, 255, 255, 255, 255, 255, 255, 255],
        // 18446744073709551615ul
        vec![255, 255, 255, 255, 255, 255, 255, 255],
        // 18446744073709551615ul
        vec![255, 255, 255, 255, 255, 255, 255, 255],
        // 18446744073709551615ul
        vec![255, 255, 255, 255, 255, 255, 255, 255],
        // 18446744073709551615ul
        vec![255, 255, 255, 255, 255, 255, 255, 255],
        // 18446744073709551615ul
        vec![255, 255, 255, 255, 255, 255, 255, 255],
        // 1
        vec![1],
        // 0ul
        vec![0, 0, 0, 0, 0, 0, 0, 0],
        // 18446744073709551615ul
        vec![255, 255, 255, 255, 255, 255, 255, 255],
    ];
    kani::concrete_playback_run(concrete_vals, c07_bb_keyseq_within);
}

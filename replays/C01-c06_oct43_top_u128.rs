// Counterexample(s) found by Kani/CBMC for property C01, harness c06_oct43_top_u128 (parse_scalars::verif::c06_oct43_top_u128)
// failed checks: [{"desc": "attempt to multiply with overflow", "file": "src/parse_scalars.rs", "line": 51, "fn": "parse_scalars::parse_digits_u128"}]
// replay: /verif/bin/check --replay /verif/replays/C01-c06_oct43_top_u128.rs
//HARNESS c06_oct43_top_u128
/// Test generated for harness `parse_scalars::verif::c06_oct43_top_u128` 
///
/// Check for `assertion`: "attempt to multiply with overflow"
///
/// # Warning
///
/// Concrete playback tests combined with stubs or contracts is highly
/// experimental, and subject to change.
///
/// The original harness has stubs which are not applied to this test.
/// This may cause a mismatch of non-deterministic values if the stub
/// creates any non-deterministic value.
/// The execution path may also differ, which can be used to refine the stub
/// logic.

#[test]
fn kani_concrete_playback_c06_oct43_top_u128_16591070494297190381() {
    let concrete_vals: Vec<Vec<u8>> = vec![
        // 6
        vec![6],
    ];
    kani::concrete_playback_run(concrete_vals, c06_oct43_top_u128);
}

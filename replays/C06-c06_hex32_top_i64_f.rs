// Counterexample(s) found by Kani/CBMC for property C06, harness c06_hex32_top_i64_f (parse_scalars::verif::c06_hex32_top_i64_f)
// failed checks: [{"desc": "\"magnitude beyond i128 accepted (wrapped)\"", "file": "/verif/harness/h_parse_scalars.rs", "line": 407, "fn": "parse_scalars::verif::c06_hex32_top_i64_f"}]
// replay: /verif/bin/check --replay /verif/replays/C06-c06_hex32_top_i64_f.rs
//HARNESS c06_hex32_top_i64_f
/// Test generated for harness `parse_scalars::verif::c06_hex32_top_i64_f` 
///
/// Check for `assertion`: ""magnitude beyond i128 accepted (wrapped)""
///
/// # Warning
///
/// Concrete playback tests combined with stubs or contracts is highly
/// experimental, and subject to change.
///
/// The original harness has stubs which are not applied to this test.
/// This may cause a mismatch of non-deterministic values if the stub
/// creates any non-deterministic value.
/// The execution path may also differ, which can be used to refine the stub
/// logic.

#[test]
fn kani_concrete_playback_c06_hex32_top_i64_f_8298919945559162141() {
    let concrete_vals: Vec<Vec<u8>> = vec![
        // 15
        vec![15],
        // 15
        vec![15],
    ];
    kani::concrete_playback_run(concrete_vals, c06_hex32_top_i64_f);
}

// Counterexample(s) found by Kani/CBMC for property C07, harness c07_finalize_ratio (budget::verif::c07_finalize_ratio)
// failed checks: [{"desc": "attempt to multiply with overflow", "file": "src/budget.rs", "line": 524, "fn": "budget::BudgetEnforcer::finalize"}]
// replay: /verif/bin/check --replay /verif/replays/C07-c07_finalize_ratio.rs
//HARNESS c07_finalize_ratio
/// Test generated for harness `budget::verif::c07_finalize_ratio` 
///
/// Check for `assertion`: "attempt to multiply with overflow"

#[test]
fn kani_concrete_playback_c07_finalize_ratio_2115175178776991715() {
    let concrete_vals: Vec<Vec<u8>> = vec![
        // 18446744073709551615ul
        vec![255, 255, 255, 255, 255, 255, 255, 255],
        // 18446744073709551615ul
        vec![255, 255, 255, 255, 255, 255, 255, 255],
        // 18446744073709551615ul
        vec![255, 255, 255, 255, 255, 255, 255, 255],
        // 18446744073709551615ul
        vec![255, 255, 255, 255, 255, 255, 255, 255],
        // 18446744073709551615ul
        vec![255, 255, 255, 255, 255, 255, 255, 255],
        // 18446744073709551615ul
        vec![255, 255, 255, 255, 255, 255, 255, 255],
        // 18446744073709551615ul
        vec![255, 255, 255, 255, 255, 255, 255, 255],
        // 18446744073709551615ul
        vec![255, 255, 255, 255, 255, 255, 255, 255],
        // 1
        vec![1],
        // 1657324662872342522ul
        vec![250, 255, 255, 255, 255, 255, 255, 22],
        // 18446744073709551615ul
        vec![255, 255, 255, 255, 255, 255, 255, 255],
        // 0ul
        vec![0, 0, 0, 0, 0, 0, 0, 0],
        // 4611686018427387902ul
        vec![254, 255, 255, 255, 255, 255, 255, 63],
        // 0ul
        vec![0, 0, 0, 0, 0, 0, 0, 0],
        // 0ul
        vec![0, 0, 0, 0, 0, 0, 0, 0],
        // 0ul
        vec![0, 0, 0, 0, 0, 0, 0, 0],
        // 18446744073709551615ul
        vec![255, 255, 255, 255, 255, 255, 255, 255],
        // 0ul
        vec![0, 0, 0, 0, 0, 0, 0, 0],
        // 0ul
        vec![0, 0, 0, 0, 0, 0, 0, 0],
        // 2ul
        vec![2, 0, 0, 0, 0, 0, 0, 0],
        // 0
        vec![0],
    ];
    kani::concrete_playback_run(concrete_vals, c07_finalize_ratio);
}

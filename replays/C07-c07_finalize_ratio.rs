// Counterexample(s) found by Kani/CBMC for property C07, harness c07_finalize_ratio (budget::verif::c07_finalize_ratio)
// failed checks: [{"desc": "\"ratio breach missed\"", "file": "/verif/harness/wb/h_budget_wb.rs", "line": 565, "fn": "budget::verif::c07_finalize_ratio"}]
// replay: /verif/bin/check --replay /verif/replays/C07-c07_finalize_ratio.rs
//HARNESS c07_finalize_ratio
/// Test generated for harness `budget::verif::c07_finalize_ratio` 
///
/// Check for `assertion`: ""ratio breach missed""

#[test]
fn kani_concrete_playback_c07_finalize_ratio_6700360090014998804() {
    let concrete_vals: Vec<Vec<u8>> = vec![
        // 18446744073709551615ul
        vec![255, 255, 255, 255, 255, 255, 255, 255],
        // 18446744073709551615ul
        vec![255, 255, 255, 255, 255, 255, 255, 255],
        // 18446744073709551615ul
        vec![255, 255, 255, 255, 255, 255, 255, 255],
        // 18446744073709551615ul
        vec![255, 255, 255, 255, 255, 255, 255, 255],
        // 18446744073709551615ul
        vec![255, 255, 255, 255, 255, 255, 255, 255],
        // 18446744073709551615ul
        vec![255, 255, 255, 255, 255, 255, 255, 255],
        // 18446744073709551615ul
        vec![255, 255, 255, 255, 255, 255, 255, 255],
        // 18446744073709551615ul
        vec![255, 255, 255, 255, 255, 255, 255, 255],
        // 1
        vec![1],
        // 1152921504573292493ul
        vec![205, 255, 255, 253, 255, 255, 255, 15],
        // 1729382256910270439ul
        vec![231, 255, 255, 255, 255, 255, 255, 23],
        // 0ul
        vec![0, 0, 0, 0, 0, 0, 0, 0],
        // 3458764513820540879ul
        vec![207, 255, 255, 255, 255, 255, 255, 47],
        // 0ul
        vec![0, 0, 0, 0, 0, 0, 0, 0],
        // 0ul
        vec![0, 0, 0, 0, 0, 0, 0, 0],
        // 0ul
        vec![0, 0, 0, 0, 0, 0, 0, 0],
        // 18446744073709551615ul
        vec![255, 255, 255, 255, 255, 255, 255, 255],
        // 0ul
        vec![0, 0, 0, 0, 0, 0, 0, 0],
        // 0ul
        vec![0, 0, 0, 0, 0, 0, 0, 0],
        // 2ul
        vec![2, 0, 0, 0, 0, 0, 0, 0],
        // 0
        vec![0],
    ];
    kani::concrete_playback_run(concrete_vals, c07_finalize_ratio);
}

// Counterexample(s) found by Kani/CBMC for property C12, harness c12_value_plain_3 (ser_quoting::verif::c12_value_plain_3)
// failed checks: [{"desc": "\"a string value is emitted plain although the plain form does not read back as the same string\"", "file": "/verif/harness/h_ser_quoting.rs", "line": 246, "fn": "ser_quoting::verif::value_plain_n::<3>"}]
// replay: /verif/bin/check --replay /verif/replays/C12-c12_value_plain_3.rs
//HARNESS c12_value_plain_3
/// Test generated for harness `ser_quoting::verif::c12_value_plain_3` 
///
/// Check for `assertion`: ""a string value is emitted plain although the plain form does not read back as the same string""
///
/// # Warning
///
/// Concrete playback tests combined with stubs or contracts is highly
/// experimental, and subject to change.
///
/// The original harness has stubs which are not applied to this test.
/// This may cause a mismatch of non-deterministic values if the stub
/// creates any non-deterministic value.
/// The execution path may also differ, which can be used to refine the stub
/// logic.

#[test]
fn kani_concrete_playback_c12_value_plain_3_9338587565527805983() {
    let concrete_vals: Vec<Vec<u8>> = vec![
        // 48
        vec![48],
        // 88
        vec![88],
        // 50
        vec![50],
        // 1
        vec![1],
        // 0
        vec![0],
    ];
    kani::concrete_playback_run(concrete_vals, c12_value_plain_3);
}

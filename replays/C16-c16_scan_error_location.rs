// Counterexample(s) found by Kani/CBMC for property C16, harness c16_scan_error_location (de_error::verif::c16_scan_error_location)
// failed checks: [{"desc": "\"character offset differs from the mark's character index\"", "file": "/verif/harness/h_de_error.rs", "line": 27, "fn": "de_error::verif::c16_scan_error_location"}]
// replay: /verif/bin/check --replay /verif/replays/C16-c16_scan_error_location.rs
//HARNESS c16_scan_error_location
/// Test generated for harness `de_error::verif::c16_scan_error_location` 
///
/// Check for `assertion`: ""character offset differs from the mark's character index""
///
/// # Warning
///
/// Concrete playback tests combined with stubs or contracts is highly
/// experimental, and subject to change.
///
/// The original harness has stubs which are not applied to this test.
/// This may cause a mismatch of non-deterministic values if the stub
/// creates any non-deterministic value.
/// The execution path may also differ, which can be used to refine the stub
/// logic.

#[test]
fn kani_concrete_playback_c16_scan_error_location_14182433833351692122() {
    let concrete_vals: Vec<Vec<u8>> = vec![
        // 4026531717ul
        vec![133, 255, 255, 239, 0, 0, 0, 0],
        // 4294967294ul
        vec![254, 255, 255, 255, 0, 0, 0, 0],
        // 536870908ul
        vec![252, 255, 255, 31, 0, 0, 0, 0],
        // 1
        vec![1],
        // 4026531751ul
        vec![167, 255, 255, 239, 0, 0, 0, 0],
    ];
    kani::concrete_playback_run(concrete_vals, c16_scan_error_location);
}

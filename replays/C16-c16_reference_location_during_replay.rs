// Counterexample(s) found by Kani/CBMC for property C16, harness c16_reference_location_during_replay (live_events::verif::c16_reference_location_during_replay)
// failed checks: [{"desc": "\"use-site location of the alias lost at some replay position\"", "file": "/verif/harness/h_live_events.rs", "line": 66, "fn": "live_events::verif::c16_reference_location_during_replay"}]
// replay: /verif/bin/check --replay /verif/replays/C16-c16_reference_location_during_replay.rs
//HARNESS c16_reference_location_during_replay
/// Test generated for harness `live_events::verif::c16_reference_location_during_replay` 
///
/// Check for `assertion`: ""use-site location of the alias lost at some replay position""

#[test]
fn kani_concrete_playback_c16_reference_location_during_replay_14397121083007170823() {
    let concrete_vals: Vec<Vec<u8>> = vec![
        // 17940362863843014904ul
        vec![248, 248, 248, 248, 248, 248, 248, 248],
        // 17940362863843014904ul
        vec![248, 248, 248, 248, 248, 248, 248, 248],
        // 17940362863843014904ul
        vec![248, 248, 248, 248, 248, 248, 248, 248],
        // 17940362863843014904ul
        vec![248, 248, 248, 248, 248, 248, 248, 248],
        // 0
        vec![0],
        // 0
        vec![0],
        // 1
        vec![1],
        // 2ul
        vec![2, 0, 0, 0, 0, 0, 0, 0],
        // 6
        vec![6, 0, 0, 0],
        // 18446744073709551615ul
        vec![255, 255, 255, 255, 255, 255, 255, 255],
        // 1
        vec![1],
    ];
    kani::concrete_playback_run(concrete_vals, c16_reference_location_during_replay);
}

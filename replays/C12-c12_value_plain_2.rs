// Counterexample(s) found by Kani/CBMC for property C12, harness c12_value_plain_2 (ser_quoting::verif::c12_value_plain_2)
// failed checks: [{"desc": "\"a string value is emitted plain although the plain form does not read back as the same string\"", "file": "/verif/harness/h_ser_quoting.rs", "line": 246, "fn": "ser_quoting::verif::value_plain_n::<2>"}]
// replay: /verif/bin/check --replay /verif/replays/C12-c12_value_plain_2.rs
//HARNESS c12_value_plain_2
/// Test generated for harness `ser_quoting::verif::c12_value_plain_2` 
///
/// Check for `assertion`: ""a string value is emitted plain although the plain form does not read back as the same string""
///
/// # Warning
///
/// Concrete playback tests combined with stubs or contracts is highly
/// experimental, and subject to change.
///
/// The original harness has stubs which are not applied to this test.
/// This may cause a mismatch of non-deterministic values if the stub
/// creates any non-deterministic value.
/// The execution path may also differ, which can be used to refine the stub
/// logic.

#[test]
fn kani_concrete_playback_c12_value_plain_2_7128309793150645960() {
    let concrete_vals: Vec<Vec<u8>> = vec![
        // 95
        vec![95],
        // 55
        vec![55],
        // 0
        vec![0],
        // 0
        vec![0],
    ];
    kani::concrete_playback_run(concrete_vals, c12_value_plain_2);
}

#!/bin/bash
# usage: verify_seed.sh <worktree> <seed_out/k dir> ; confirms: patch applies, suite passes with it, demo fails with it, demo passes without it
set -u
WT=$1; D=$2
cd $WT || exit 2
export CARGO_TARGET_DIR=$WT/target CARGO_NET_OFFLINE=true
git checkout -q -- src; rm -f tests/seed_demo_*.rs
git apply --check $D/patch.diff || { echo "PATCH DOES NOT APPLY"; exit 1; }
demo=tests/seed_demo_verify.rs
cp $D/demo.rs $demo
echo "== clean tree: demo must pass"
cargo test --offline --test seed_demo_verify 2>&1 | grep -E "^test result|FAILED|panicked" | head -5
git apply $D/patch.diff
echo "== mutated tree: demo must fail"
cargo test --offline --test seed_demo_verify 2>&1 | grep -E "^test result|FAILED" | head -5
rm -f $demo
echo "== mutated tree: full suite"
cargo nextest run --workspace --no-fail-fast --offline --test-threads 6 2>&1 | grep -E "Summary|FAIL " | head -5
git checkout -q -- src
git status --short | grep -v seed_out | head

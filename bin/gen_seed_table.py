#!/usr/bin/env python3
"""Markdown table of the seeded changes and which check caught which (from seeded/*/result*.json)."""
import json, os, re
rows = []
WHAT = {
 "C01-1": "ASCII fast path in crop_source_window slices mid-character (needs a > 4 KiB error line)",
 "C01-2": "ChunkedChars continuation loop: Ok(0) no longer ends it -> endless loop at EOF inside a code point",
 "C01-3": "parse_digits_u128 skips checked arithmetic for 'short' literals; octal bound 43 instead of 42 -> overflow panic",
 "C04-1": "MA::skip_one_node ignores nested SeqStart when counting depth (FirstWins)",
 "C04-2": "KeyNode::fingerprint gives quoted scalars the tag !!str: `a` and `\"a\"` no longer the same key",
 "C04-3": "MA::next_key_seed uses seen.take() and forgets to put the key back on the FirstWins path (3rd occurrence delivered)",
 "C06-1": "parse_int_signed: u128 -> i128 with `as` on the radix path: 0xFFFF..FF wraps to -1",
 "C06-2": "special float table strips '-' then '+': `-+.inf` accepted",
 "C06-3": "base64 trailing-bit mask (1<<(pad+1))-1: `QY==` accepted",
 "C07-1": "per-document reset no longer clears depth / container stack",
 "C07-2": "ratio heuristic with truncating division aliases/anchors > multiplier",
 "C07-3": "ContainerState loses from_mapping_value; closing a container key flips key/value tracking",
 "C09-1": "continuation reads overwrite the part of the code point already received (partial fills)",
 "C09-2": "encoding_rs_io builder with utf8_passthru: BOM reaches the scanner for reader input",
 "C09-3": "from_reader inverts the 'garbage after document end' rule",
 "C10-1": "input cap checked on the leading byte only: a multi-byte character may straddle the cap",
 "C10-2": "peek() takes the I/O error a second time; callers that tolerate Err after document end lose it",
 "C10-3": "writer adapter fast path for ASCII write_char drops the io::Error (Format error returned)",
 "C12-1": "null/true/false look-alikes recognised in canonical letter cases only (`nULL` emitted plain)",
 "C12-2": "first_line_leading_spaces skips lines of only spaces: indentation indicator missing",
 "C12-3": "fast path for whole-number floats drops the sign of -0.0",
 "C16-1": "from_scan_error takes the character offset from the mark's byte offset",
 "C16-2": "reference_location() honours the alias location only for the first replayed event",
 "C16-3": "next_value_seed computes the definition-site from replay.reference_location()",
 "C17-1": "sanitiser keeps form feed and bare CR (is_ascii_control && !is_ascii_whitespace)",
 "C17-2": "crop_line_by_cols: right edge = last kept column + 1 byte (panics on multi-byte)",
 "C17-3": "storage-time crop numbers window rows from 1 (needs a > 4 KiB line, error on line >= 4)",
}
for sd in sorted(os.listdir("/verif/seeded")):
    d = "/verif/seeded/" + sd
    if not os.path.isdir(d):
        continue
    res = None
    for f in ("result_targeted.json", "result.json"):
        if os.path.exists(os.path.join(d, f)):
            r = json.load(open(os.path.join(d, f)))
            if res is None or (r.get("detected") and not res.get("detected")):
                res = r
    notes = open(os.path.join(d, "notes.md")).read()
    title = ""
    for l in notes.splitlines():
        l = l.strip().lstrip("#").strip()
        if l and not l.lower().startswith("seed") or (l and ":" in l):
            title = l
            break
    diffstat = [l[6:] for l in open(os.path.join(d, "patch.diff")) if l.startswith("+++ b/")]
    if res is None:
        out, by = "not run", ""
    elif res.get("detected"):
        out, by = "**detected** (exit 1, replayed natively)", ", ".join("`%s`" % h for h in res.get("violating_harnesses", []))
    elif res.get("exit_code") == 2:
        out, by = "inconclusive (exit 2)", "; ".join(s for s in res.get("summary", []) if s.startswith("INCONCLUSIVE"))[:160]
    else:
        out, by = "not detected (exit 0)", ""
    rows.append((sd, ", ".join(x.strip() for x in diffstat), WHAT.get(sd, title[:150]), out, by))
print("| seed | touches | change (from the author's notes) | outcome of `bin/seedcheck` | by |")
print("|---|---|---|---|---|")
for r in rows:
    print("| %s | %s | %s | %s | %s |" % r)

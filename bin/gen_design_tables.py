#!/usr/bin/env python3
"""Print markdown tables of the registered harnesses per property (for DESIGN.md §9.5)."""
import sys
sys.path.insert(0, "/verif/bin")
import registry
props = sorted({p for h in registry.HARNESSES for p in h["props"]})
for p in props:
    hs = [h for h in registry.HARNESSES if h["props"][0] == p]
    if not hs:
        continue
    print("\n**%s** — primary harnesses (others also count towards it where listed in `bin/check --list %s`)\n" % (p, p))
    print("| harness | tier | decides | bound |")
    print("|---|---|---|---|")
    for h in hs:
        print("| `%s` | %s | %s | %s |" % (h["name"], h["tier"], h.get("claim", "").replace("|", "\\|")[:260], h.get("bound", "").replace("|", "\\|")[:200]))

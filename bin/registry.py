"""Registry of Kani harnesses: which property each decides, at which tier, with which bound.

Every entry names the real functions it encodes, the bound inside which the solver's verdict holds
and the assumptions (environment contracts, representation invariants) that are part of the claim.
"""

# harness file h_<module>.rs is mounted as `<rust module path>::verif`
MODULE_PATH = {
    "budget": "budget", "parse_scalars": "parse_scalars", "base64": "base64",
    "buffered_input": "buffered_input", "ring_reader": "ring_reader", "snippet": "de_snipped",
    "de": "de", "live_events": "live_events", "ser": "ser", "ser_quoting": "ser_quoting",
    "zmij_format": "zmij_format", "wrapping": "wrapping", "location": "location",
    "robotics": "robotics", "de_error": "de_error", "message_formatters": "message_formatters",
    "tags": "tags", "miette": "miette", "long_strings": "long_strings", "lib": "",
}
MODULES = sorted(MODULE_PATH)

HARNESSES = []

STD_STUBS = "std-lite stubs replace core::str::validations::run_utf8_validation / count_chars / memchr / simd_contains / str::trim (naive byte loops, exact, validated natively against std by bin/check --selftest)"
FMT_STUB = "alloc::fmt::format is stubbed to return an empty String (text of error messages is not the subject)"


def H(name, module, props, tier="quick", **kw):
    mp = MODULE_PATH[module]
    path = (mp + "::" if mp else "") + "verif::" + name
    e = {"name": name, "module": module, "path": path, "props": props if isinstance(props, list) else [props], "tier": tier}
    e.update(kw)
    HARNESSES.append(e)
    return e


# --------------------------------------------------------------------------------------------
# C07 budget automaton (src/budget.rs) - inductive steps from an arbitrary valid pre-state
# --------------------------------------------------------------------------------------------
BUDGET_FUNCS = ["budget::BudgetEnforcer::observe", "budget::BudgetEnforcer::bump_nodes", "budget::BudgetEnforcer::record_anchor",
                "budget::BudgetEnforcer::handle_scalar", "budget::BudgetEnforcer::handle_alias", "budget::BudgetEnforcer::entering_container",
                "budget::BudgetEnforcer::leave_sequence", "budget::BudgetEnforcer::leave_mapping", "budget::BudgetEnforcer::finish_value"]
BUDGET_INV = ["pre-state invariant of a non-failed enforcer: every counter <= its limit and < 2^62; depth <= report.max_depth",
              "hash set of defined anchors holds concrete ids (0..2 entries); ahash seeded with fixed keys instead of OS randomness"]
NODES_CLAIM = "one observe() from an arbitrary pre-state: Err iff a limit is exceeded after counting the event, breach names an exceeded limit with the exact count, Ok => every counter and the key/value alternation updated exactly; event = "
NODES_BOUND = "all 11 Budget fields and all 8 counters free 64-bit words; top of container stack absent or arbitrary; both policies; unwind 10"
for _n, _ev in (("c07_step_scalar_empty", "plain empty scalar"), ("c07_step_scalar_ab", "plain scalar 'ab'"),
                ("c07_step_scalar_merge", "plain untagged '<<' (merge key iff in key position)"),
                ("c07_step_scalar_quoted_merge", "double-quoted '<<' (ordinary key)"), ("c07_step_scalar_tagged_merge", "tagged '<<' (ordinary key)"),
                ("c07_step_seq_start", "SequenceStart"), ("c07_step_map_start", "MappingStart")):
    H(_n, "budget", ["C07", "C01"], expect_s=60, timeout=900, functions=BUDGET_FUNCS, claim=NODES_CLAIM + _ev, bound=NODES_BOUND, assumes=BUDGET_INV)
BB_NOTE = ["black-box: uses only BudgetEnforcer::new / observe / finalize, concrete event list, all limits free; ahash::RandomState::new stubbed to fixed keys (OS randomness unsupported)"]
BB_STREAMS = {"keyseq": "{? [a] : <<, other: x} (8 events, AllContent)", "keymap": "{? {k: x} : v, <<: {}} (10 events, AllContent)",
              "anchors": "{a: &1 [&2 x], b: *1, \"<<\": *1} (11 events, AllContent)", "twodocs": "two documents re-using anchor id 1 (10 events, PerDocument)",
              "abandoned": "document abandoned with two containers open, boundary, full document (10 events, PerDocument)", "allcontent": "two documents (10 events, AllContent)"}
BB_THOROUGH = ("keymap_within", "anchors_within", "abandoned_within", "abandoned_nodelimit", "abandoned_depthlimit", "twodocs_within", "anchors_anchorlimit", "anchors_aliaslimit", "twodocs_eventlimit", "twodocs_anchorlimit")
for _n in ("keyseq_within", "keyseq_mergelimit", "keymap_within", "keymap_mergelimit", "anchors_within", "anchors_anchorlimit", "anchors_aliaslimit",
           "twodocs_within", "twodocs_eventlimit", "twodocs_anchorlimit", "abandoned_within", "abandoned_depthlimit", "abandoned_nodelimit", "allcontent_within"):
    _stream, _mode = _n.split("_")
    H("c07_bb_" + _n, "budget", ["C07"], tier=("thorough" if _n in BB_THOROUGH else "quick"), expect_s=(1500 if _n in BB_THOROUGH else 90), timeout=(3000 if _n in BB_THOROUGH else 900), blackbox=True,
      mem_gb=(40 if _n in BB_THOROUGH else 20), weight=(5 if _n in BB_THOROUGH else 2), functions=["budget::BudgetEnforcer::new", "budget::BudgetEnforcer::observe", "budget::BudgetEnforcer::finalize"],
      claim=("scenario, all limits free but admitting the stream: no event is rejected, the final report equals an independent count (events, nodes, depth, aliases, anchors, scalar bytes, merge keys with key/value position tracking), ratio verdict = documented inequality"
             if _mode == "within" else "scenario, exactly one limit free (" + _mode + "): observe() fails at exactly the event at which the independent count first exceeds it"),
      bound="concrete event list: " + BB_STREAMS[_stream], assumes=BB_NOTE)
H("c07_step_ends", "budget", ["C07", "C01"], expect_s=60, functions=BUDGET_FUNCS,
  claim="one observe() of SequenceEnd/MappingEnd: Ok iff balanced and events within limit; depth and parent mapping state exact",
  bound="limits/counters free; exact container stack of 0..2 arbitrary entries (deeper entries are never touched by an end event)",
  assumes=BUDGET_INV + ["depth == containers.len() (representation invariant)"])
H("c07_step_alias_doc", "budget", ["C07", "C01"], expect_s=60, functions=BUDGET_FUNCS,
  claim="one observe() of Alias/DocumentStart(AllContent)/DocumentEnd/StreamStart/StreamEnd/Nothing: exact counters, exact verdict",
  bound="limits/counters free; top of stack absent or arbitrary", assumes=BUDGET_INV)
for _n, _ev in (("c07_anchor_scalar_first", "scalar with id 1, no anchor defined before"), ("c07_anchor_scalar_seen", "scalar re-using id 1, {1} defined"),
                ("c07_anchor_scalar_new", "scalar with new id 3, {1} defined"), ("c07_anchor_seq_seen", "sequence start re-using id 1, {1} defined"),
                ("c07_anchor_seq_new", "sequence start with new id 3, {1} defined"), ("c07_anchor_map_seen", "mapping start re-using id 1, {1} defined"),
                ("c07_anchor_map_new", "mapping start with new id 3, {1} defined")):
    H(_n, "budget", ["C07"], expect_s=60, timeout=900, functions=BUDGET_FUNCS,
      claim="distinct anchors are counted once, max_anchors is exact (n passes, n+1 fails); anchored " + _ev,
      bound="concrete set of already defined anchor ids per harness; max_anchors and all other limits and counters free",
      assumes=BUDGET_INV + ["other limits not reached by this event (they are the subject of the c07_step_* harnesses)"])
H("c07_finalize_ratio", "budget", ["C07", "C01"], expect_s=30, functions=["budget::BudgetEnforcer::finalize"],
  claim="post-scan verdict == (enforce && aliases >= min && (anchors == 0 || aliases > multiplier*anchors)) evaluated in 128-bit arithmetic; report fields copied exactly; no overflow panic",
  bound="aliases, multiplier, min_aliases, all counters free 64-bit; anchors in 0..=2", assumes=BUDGET_INV)
H("c07_perdoc_reset", "budget", ["C07"], expect_s=60, functions=["budget::BudgetEnforcer::observe (DocumentStart, PerDocument)", "budget::BudgetReport::reset"],
  claim="per-document independence as one inductive step: two enforcers in two different arbitrary states at a document boundary observe DocumentStart; verdict, all counters, known-anchor count and nesting state are equal afterwards",
  bound="limits free; both counter vectors free; 0..2 anchors defined in one of them",
  assumes=BUDGET_INV + ["one of the two enforcers is at a clean boundary (depth 0, empty stack), the other is arbitrary incl. open nesting of an abandoned document"])
H("c07_witness_reachable", "budget", ["C07"], expect_s=30, functions=["budget::BudgetEnforcer::observe"],
  claim="vacuity twin: with the same pre-state construction both Ok and Err are reachable", bound="as c07_step_nodes")


# --------------------------------------------------------------------------------------------
# C17 / C01 snippet cropping and sanitising (src/de/snippet.rs)
# --------------------------------------------------------------------------------------------
UTF8_IN = "input = every valid-UTF-8 byte string of exactly N bytes (all 2^(8N) byte vectors filtered by the reference validator)"
H("c17_sanitize_4", "snippet", ["C17", "C01"], expect_s=30, functions=["de_snipped::sanitize_terminal_snippet_preserve_len", "de_snipped::is_terminal_snippet_clean"],
  claim="sanitised text has the same byte length, contains no C0 (except \\n,\\t), DEL or C1 control, is valid UTF-8, leaves harmless bytes untouched; the crate's cleanliness predicate equals the reference predicate",
  bound=UTF8_IN + ", N=4; unwind 7", mem_gb=16, assumes=[STD_STUBS, "String::from_utf8_lossy is replaced by assert!(false): only reachable if the sanitiser broke UTF-8"])
H("c17_sanitize_6", "snippet", ["C17"], tier="thorough", expect_s=600, mem_gb=30, weight=3, timeout=2400, functions=["de_snipped::sanitize_terminal_snippet_preserve_len", "de_snipped::is_terminal_snippet_clean"],
  claim="as c17_sanitize_4", bound=UTF8_IN + ", N=6; unwind 9", assumes=[STD_STUBS])
H("c17_crop_line_4", "snippet", ["C17", "C01"], expect_s=60, functions=["de_snipped::crop_line_by_cols", "de_snipped::col_to_byte_offset_in_line"],
  claim="cropped line keeps at most right-left+1 characters plus two ellipses, stays valid UTF-8, and a byte offset of any character inside the window is rebased onto the same character",
  bound=UTF8_IN + " without \\n, N=4; error column and radius free 64-bit (radius>=1); left/right computed as the callers do", assumes=[STD_STUBS])
H("c17_crop_line_6", "snippet", ["C17"], tier="thorough", expect_s=300, timeout=2400, functions=["de_snipped::crop_line_by_cols", "de_snipped::col_to_byte_offset_in_line"],
  claim="as c17_crop_line_4", bound=UTF8_IN + " without \\n, N=6", assumes=[STD_STUBS])
COORD_F = ["de_snipped::line_starts", "de_snipped::line_col_to_byte_offset_with_starts", "de_snipped::next_char_boundary", "de_snipped::col_to_byte_offset_in_line"]
COORD_C = "(row, col) -> byte offset is on the requested line, on a char boundary, exactly col-1 characters after the line start; next_char_boundary advances by exactly one character; no slice panic for any row/col"
for _n, _N, _tier, _exp in (("c17_coords_2", 2, "quick", 120), ("c17_coords_3", 3, "thorough", 600), ("c17_coords_4", 4, "thorough", 2400)):
    H(_n, "snippet", ["C17", "C16", "C01"], tier=_tier, expect_s=_exp, timeout=max(1200, 3 * _exp), mem_gb=20, weight=2, functions=COORD_F, claim=COORD_C,
      bound=UTF8_IN + ", N=%d (incl. \\n, \\r, multi-byte); row and col free 64-bit" % _N, assumes=[STD_STUBS])
WIN_C = "rendered window is terminal-clean, has the same number of lines, the rebased marker span is in range / ordered / on char boundaries / on the reported row and still under the same visible character"
for _n, _N, _tier, _exp in (("c17_crop_window_2", 2, "thorough", 2400), ("c17_crop_window_3", 3, "thorough", 2400), ("c17_crop_window_4", 4, "thorough", 3600)):
    H(_n, "snippet", ["C17", "C01"], tier=_tier, expect_s=_exp, timeout=max(1200, 2 * _exp), mem_gb=20, weight=2, functions=["de_snipped::crop_window_text", "de_snipped::crop_line_by_cols", "de_snipped::sanitize_terminal_snippet_preserve_len"],
      claim=WIN_C, bound=UTF8_IN + ", N=%d; error row within the text, column and crop radius free 64-bit (0, 1, huge included); span computed as the callers do" % _N,
      assumes=[STD_STUBS, "String::from_utf8_lossy is replaced by assert!(false): only reachable if the sanitiser broke UTF-8"])
SRC_C = "stored window has at most 5 line breaks, is never longer than the text, contains the line the location refers to (start_line arithmetic for both mappings); no slice panic"
for _n, _N, _tier, _exp in (("c17_source_window_2", 2, "thorough", 1200), ("c17_source_window_3", 3, "thorough", 1200), ("c17_source_window_4", 4, "thorough", 3600)):
    H(_n, "snippet", ["C17", "C01"], tier=_tier, expect_s=_exp, timeout=max(1200, 2 * _exp), mem_gb=20, weight=2, functions=["de_snipped::crop_source_window", "de_snipped::line_starts"], claim=SRC_C,
      bound=UTF8_IN + ", N=%d; line/column free u32, crop radius and start_line free 64-bit, both LineMappings (the >4 KiB storage-crop path is outside: unreachable with so few bytes)" % _N, assumes=[STD_STUBS])

# --------------------------------------------------------------------------------------------
# C06 / C01 scalar kernels (src/parse_scalars.rs)
# --------------------------------------------------------------------------------------------
INT_FUNCS = ["parse_scalars::parse_int_signed", "parse_scalars::parse_int_unsigned", "parse_scalars::radix_and_digits",
             "parse_scalars::parse_digits_u128", "parse_scalars::parse_decimal_signed_i128", "parse_scalars::parse_decimal_unsigned_u128"]
ASCII_IN = "input = every ASCII byte string (0x00..0x7F per byte) of exactly N bytes"
INT_CLAIM = "differential against a reference reader of the documented integer notations: Ok(v) iff the token denotes an integer that fits the target type, and then v is the exact value (never wrapped/saturated/truncated); both values of legacy_octal; no panic (incl. &rest[2..])"
for _n, _t, _N, _tier, _exp in (("c06_int_i8_3", "i8", 3, "quick", 120), ("c06_int_u8_3", "u8", 3, "quick", 120),
                                ("c06_int_i8_4", "i8", 4, "quick", 240), ("c06_int_u8_4", "u8", 4, "quick", 240),
                                ("c06_int_i8_5", "i8", 5, "thorough", 900), ("c06_int_u8_5", "u8", 5, "thorough", 900), ("c06_int_i16_5", "i16", 5, "thorough", 900)):
    H(_n, "parse_scalars", ["C06", "C01"], tier=_tier, expect_s=_exp, timeout=max(1200, _exp * 4), functions=INT_FUNCS,
      claim=INT_CLAIM + "; target " + _t, bound=ASCII_IN + ", N=%d" % _N, assumes=[STD_STUBS, "str::trim is the real libcore function"])
WIDE_CLAIM = "width boundary: for every digit string of the boundary's length in this radix, accepted iff <= the target's MAX (resp. |MIN|) literal, and the accepted value has exactly those digits"
for _n, _desc, _tier, _exp in (
        ("c06_wide_i16_pos", "i16 decimal, 5 digits", "quick", 60), ("c06_wide_i16_neg", "i16 '-' + 5 decimal digits", "quick", 60), ("c06_wide_u16", "u16 decimal, 5 digits", "quick", 60),
        ("c06_wide_i32_pos", "i32 decimal, 10 digits", "thorough", 800), ("c06_wide_i32_neg", "i32 '-' + 10 digits", "thorough", 900), ("c06_wide_u32", "u32 decimal, 10 digits", "thorough", 800),
        ("c06_wide_i64_pos", "i64 decimal, 19 digits", "thorough", 900), ("c06_wide_i64_neg", "i64 '-' + 19 digits", "thorough", 900), ("c06_wide_u64", "u64 decimal, 20 digits", "thorough", 900),
        ("c06_wide_hex_i8_pos", "i8 0x + 2 hex digits", "quick", 40), ("c06_wide_hex_i8_neg", "i8 -0x + 2 hex digits", "quick", 40), ("c06_wide_hex_u8", "u8 0X + 3 hex digits", "quick", 40),
        ("c06_wide_oct_i8_pos", "i8 0o + 3 octal digits", "quick", 40), ("c06_wide_oct_u8", "u8 0o + 3 octal digits", "quick", 40),
        ("c06_wide_bin_i8_pos", "i8 0b + 8 binary digits", "quick", 60), ("c06_wide_bin_i8_neg", "i8 -0b + 8 binary digits", "quick", 60), ("c06_wide_bin_u8", "u8 0b + 9 binary digits", "quick", 60),
        ("c06_wide_hex_i32_pos", "i32 0x + 8 hex digits", "quick", 120), ("c06_wide_hex_i32_neg", "i32 -0x + 8 hex digits", "quick", 120), ("c06_wide_hex_u32", "u32 0x + 9 hex digits", "quick", 120),
        ("c06_wide_hex_i64_pos", "i64 0x + 16 hex digits", "thorough", 600), ("c06_wide_hex_i64_neg", "i64 -0x + 16 hex digits", "thorough", 600), ("c06_wide_hex_u64", "u64 0x + 17 hex digits", "thorough", 600),
        ("c06_wide_hex32_i64_pos", "i64 0x + 32 hex digits (magnitudes up to 2^128-1)", "thorough", 2400), ("c06_wide_hex32_i64_neg", "i64 -0x + 32 hex digits", "thorough", 2400),
        ("c06_wide_hex32_i128_pos", "i128 0x + 32 hex digits", "thorough", 600), ("c06_wide_hex32_i128_neg", "i128 -0x + 32 hex digits", "thorough", 600),
        ("c06_wide_hex33_u128", "u128 0x + 33 hex digits", "thorough", 600),
        ("c06_wide_oct_i64_pos", "i64 0o + 22 octal digits", "thorough", 900), ("c06_wide_oct_u64", "u64 0o + 22 octal digits", "thorough", 900)):
    H(_n, "parse_scalars", ["C06"], tier=_tier, expect_s=_exp, timeout=max(900, _exp * 4), functions=INT_FUNCS, claim=WIDE_CLAIM,
      bound="concrete skeleton, every digit symbolic in its radix class (hex: both cases), leading zeros included: " + _desc, assumes=[STD_STUBS])
for _n, _desc in (("c06_hex32_top_i64_f", "i64 target, 0x XY ffff…f (30 f)"), ("c06_hex32_top_i64_neg_f", "i64 target, -0x XY ffff…f"),
                  ("c06_hex32_top_i128_0", "i128 target, 0x XY 0000…0 (30 zeros)"), ("c06_hex32_top_i128_neg_0", "i128 target, -0x XY 0000…0")):
    H(_n, "parse_scalars", ["C06"], tier=("quick" if _n == "c06_hex32_top_i64_f" else "thorough"), expect_s=900, timeout=2700, functions=INT_FUNCS,
      claim="128-bit boundary of the u128 -> i128 -> T narrowing: a 32-digit hex magnitude is accepted iff it fits the signed target (never wrapped to a small negative number), and then exact",
      bound="two most significant hex digits symbolic (all 256 values), 30 lower digits concrete: " + _desc, assumes=[STD_STUBS])
H("c06_oct43_top_u128", "parse_scalars", ["C06", "C01"], tier="thorough", expect_s=1500, timeout=4500, mem_gb=20, weight=2, functions=INT_FUNCS,
  claim="43-digit octal literals (the first length at which 3 bits per digit exceed 128 bits): accepted iff the value fits u128, exact, and no arithmetic overflow panic",
  bound="0o + symbolic top octal digit + 42 concrete digits '7'", assumes=[STD_STUBS])
for _n, _N, _tier in (("c06_bool_3", 3, "quick"), ("c06_bool_4", 4, "quick"), ("c06_bool_5", 5, "thorough")):
    H(_n, "parse_scalars", ["C06", "C01"], tier=_tier, expect_s=60 * (_N - 2), functions=["parse_scalars::parse_yaml11_bool"],
      claim="Ok(b) iff the trimmed token is, case-insensitively, one of true/yes/y/on (b=true) or false/no/n/off (b=false)",
      bound=ASCII_IN + ", N=%d" % _N, assumes=[STD_STUBS, FMT_STUB])
H("c06_null_4", "parse_scalars", ["C06"], expect_s=60, functions=["parse_scalars::scalar_is_nullish", "parse_scalars::scalar_is_nullish_for_option"],
  claim="null-like tables: plain empty/~/null(any case) are null; for Option additionally an empty unquoted scalar; a quoted scalar is never null",
  bound="every ASCII string of length 0..4 x all five scalar styles", assumes=[STD_STUBS])
H("c06_leading_zero_4", "parse_scalars", ["C06"], expect_s=60, functions=["parse_scalars::leading_zero_decimal"],
  claim="true iff after trim and one optional sign the token starts with 0, has a further character and that is not a radix letter",
  bound="every ASCII string of length 0..4", assumes=[STD_STUBS])
for _n, _N, _tier in (("c06_float_special_4", 4, "quick"), ("c06_float_special_5", 5, "quick"), ("c06_float_special_6", 6, "quick")):
    H(_n, "parse_scalars", ["C06"], tier=_tier, expect_s=200, timeout=1500, functions=["parse_scalars::parse_yaml12_float::<f64>", "core::num::dec2flt (real libcore code, on non-digit tokens)"],
      claim="over the alphabet of the special float forms: .nan/+.nan/-.nan -> NaN, .inf/+.inf -> +inf, -.inf -> -inf in every letter case; every other token is rejected unless Rust's own float syntax ([+-]?(inf|nan)) admits it - in particular sign combinations like -+.inf are rejected",
      bound="all %d-byte tokens over {. + - n a i f N A I F}; decimal->binary conversion of digit strings is outside" % _N,
      assumes=[STD_STUBS, "<f64 as FromStr>::from_str is replaced by a stub that is exact on digit-free inputs ([+-]?(inf|infinity|nan), any case; Err otherwise)"])

# --------------------------------------------------------------------------------------------
# C09 / C10 reader adapter (src/buffered_input.rs)
# --------------------------------------------------------------------------------------------
READ_ENV = ["stub std::io::Read: every call returns a symbolic count 1..=min(buf.len(), remaining) (all partitions incl. partial fills), Ok(0) only at end of data; never ErrorKind::Interrupted",
            STD_STUBS, FMT_STUB]
STEP = "one inductive step: a single next() from an arbitrary iterator state (reader position, running byte total, empty error cell); covers streams of any length by induction"
H("c09_next_step_chunking", "buffered_input", ["C09", "C01"], expect_s=60, timeout=1500, mem_gb=16, functions=["buffered_input::ChunkedChars::next", "std::io::Read::read (stub)"],
  claim="for every chunking of the reader's bytes (incl. splits inside a multi-byte character, partial fills) the character delivered equals the one-shot decoding and exactly its bytes are consumed; invalid UTF-8 or an end of data inside a character ends the input with the error cell set; a clean end ends it without",
  bound="next 4 bytes of the stream fully symbolic (valid or not), 0..4 of them available, all read() partitions; " + STEP, assumes=READ_ENV)
H("c10_next_step_fault", "buffered_input", ["C10", "C01"], expect_s=100, timeout=1500, mem_gb=16, functions=["buffered_input::ChunkedChars::next"],
  claim="if any read() of this step returns Err (kind in {Other, UnexpectedEof, BrokenPipe, InvalidData, TimedOut, ConnectionReset}) no character is delivered AND the shared error cell is set - a reader error is never taken for end of input",
  bound="as c09_next_step_chunking plus fault at the k-th read call of the step, k in 0..=3, 6 error kinds; " + STEP, assumes=READ_ENV)
H("c10_next_step_cap", "buffered_input", ["C10"], expect_s=300, timeout=1500, mem_gb=16, functions=["buffered_input::ChunkedChars::next (max_bytes)"],
  claim="a character is delivered only if the running total stays <= cap, otherwise the step ends with ErrorKind::FileTooLarge; at most 4 bytes are pulled per step (so never more than cap + 4 in total); input within the cap is unaffected",
  bound="as c09_next_step_chunking plus cap and running total free 64-bit words (total <= cap: invariant of a live iterator); " + STEP, assumes=READ_ENV)
H("c10_next_step_cap_fault", "buffered_input", ["C10"], tier="thorough", expect_s=600, timeout=2400, mem_gb=20, functions=["buffered_input::ChunkedChars::next"],
  claim="cap and reader faults together: same post-conditions", bound="union of c10_next_step_fault and c10_next_step_cap", assumes=READ_ENV)

# --------------------------------------------------------------------------------------------
# C16 coordinates (src/location.rs)
# --------------------------------------------------------------------------------------------
H("c16_location_from_span", "location", ["C16", "C01"], expect_s=30, functions=["location::location_from_span", "location::Location::new", "location::Span accessors"],
  claim="reported line, column, character offset/length and byte offset/length are exactly the parser's marks (column 1-based); byte info present iff both marks carry byte offsets that fit 32 bits; no arithmetic panic",
  bound="all six mark coordinates free below 2^32-1, both optional byte offsets free 64-bit",
  assumes=["parser contract: end mark not before start mark, byte offset >= character index", "default build (SpanIndex = u32); feature huge_documents is outside"])
H("c16_locations_pair", "location", ["C16"], expect_s=30, functions=["location::Locations::same", "location::Locations::primary_location"],
  claim="primary location is the use-site unless unknown, then the definition-site; `same` yields both equal", bound="all line/column values (u32)")

H("c16_scan_error_location", "de_error", ["C16"], expect_s=120, timeout=1200, functions=["de_error::Error::from_scan_error"],
  claim="a scanner error is located at the parser's mark: same line, 1-based column, CHARACTER offset (not the byte offset), length 1",
  bound="mark index/line/column free below 2^32-1, optional byte offset free (>= index); concrete message text", assumes=[STD_STUBS])
H("c16_reference_location_during_replay", "live_events", ["C16"], expect_s=60, timeout=900, functions=["live_events::LiveEvents::reference_location"],
  claim="while a replay frame is active the use-site location is the alias token's for EVERY replay position; otherwise the lookahead event's, else the last location",
  bound="replay index free 64-bit, anchor id free, with/without lookahead; LiveEvents built by struct literal (one-shot scripted parser hook, empty)")

# --------------------------------------------------------------------------------------------
# C04 / C01 event-buffer kernels (src/de.rs)
# --------------------------------------------------------------------------------------------
for _n, _N, _tier, _exp in (("c04_skip_len_6", 6, "quick", 60), ("c04_skip_len_8", 8, "thorough", 600)):
    H(_n, "de", ["C04", "C01"], tier=_tier, expect_s=_exp, timeout=max(900, 4 * _exp), functions=["de::skip_one_node_len"],
      claim="for every event buffer and start index: a well-formed node (strict reference scanner) is skipped exactly; any returned length stays inside the buffer; no panic / index error on malformed buffers",
      bound="all buffers of %d events over {scalar, seq start/end, map start/end, taken} x every start index" % _N)

H("c04_scalar_key_identity", "de", ["C04"], expect_s=30, timeout=600, functions=["de::KeyNode::fingerprint", "de::KeyFingerprint (PartialEq)"],
  claim="a scalar key written plain and the same text written in any quoting style (any anchor id) have equal fingerprints: they are the same key",
  bound="text 'k', untagged, all 5 styles, anchor ids free")
H("c04_scalar_key_identity_tag", "de", ["C04"], expect_s=30, timeout=600, functions=["de::KeyNode::fingerprint", "de::KeyFingerprint (PartialEq)"],
  claim="two scalar keys with the same text have equal fingerprints iff their tags are equal", bound="text 'k', tags {none, !!str, !!int}^2, anchor ids free")

# base64 (src/base64.rs): one final quantum per concrete padding shape
for _n, _shape, _tier, _exp in (("c06_base64_pad2", "XY== (2 symbolic characters)", "thorough", 1800), ("c06_base64_pad1", "XYZ= (3 symbolic characters)", "thorough", 900), ("c06_base64_pad0", "XYZW (4 symbolic characters)", "thorough", 1200)):
    H(_n, "base64", ["C06", "C01"], tier=_tier, expect_s=_exp, timeout=3 * _exp, mem_gb=36, weight=5, functions=["base64::decode_base64_yaml", "base64::decode_val"],
      claim="Ok(bytes) iff the quantum is canonical RFC 4648 base64 (alphabet, padding shape, zero trailing bits), and then bytes are exact",
      bound="one 4-character quantum, shape " + _shape + ", every non-whitespace ASCII value per symbolic character; interior whitespace and multi-quantum inputs are outside this harness", assumes=[STD_STUBS])

# --------------------------------------------------------------------------------------------
# C12 plain-safety predicates (src/ser_quoting.rs)
# --------------------------------------------------------------------------------------------
E2E = "every oracle failure is conjoined with an end-to-end confirmation that is stubbed to `true` for the solver and runs the real to_string -> from_str round trip in the native replay (an over-strict oracle therefore yields 'not reproduced', never a VIOLATION)"
NUMLOOK = "ser_quoting::is_numeric_looking (a `regex`) is stubbed by a hand-written recogniser of the same language, validated natively against the real regex on all strings <= 5 symbols by bin/check --selftest"
for _n, _N, _tier, _exp in (("c12_key_plain_1", 1, "quick", 60), ("c12_key_plain_2", 2, "quick", 120), ("c12_key_plain_3", 3, "quick", 300), ("c12_key_plain_4", 4, "thorough", 1200)):
    H(_n, "ser_quoting", ["C12"], tier=_tier, expect_s=_exp, timeout=max(900, 4 * _exp), mem_gb=16, functions=["ser_quoting::is_plain_safe", "ser_quoting::is_ambiguous", "ser_quoting::contains_any_or_is_control"],
      claim="is_plain_safe(s) (key position) implies that s written as a plain scalar reads back as the same string: no leading/trailing blank, no control/line-break/BOM-at-start, no indicator start, no ': ' / ' #' / trailing ':', not null/bool/number-like, not the merge key '<<', not a document marker",
      bound="all valid-UTF-8 strings of exactly %d bytes" % _N, assumes=[STD_STUBS, FMT_STUB, NUMLOOK, E2E])
for _n, _N, _tier, _exp in (("c12_value_plain_1", 1, "quick", 60), ("c12_value_plain_2", 2, "quick", 120), ("c12_value_plain_3", 3, "quick", 300), ("c12_value_plain_4", 4, "thorough", 1200)):
    H(_n, "ser_quoting", ["C12"], tier=_tier, expect_s=_exp, timeout=max(900, 4 * _exp), mem_gb=16, functions=["ser_quoting::is_plain_value_safe", "ser_quoting::is_ambiguous_value", "ser_quoting::is_ambiguous"],
      claim="is_plain_value_safe(s, yaml_12, in_flow) implies that s written plain in value position (block or flow) reads back as the same string (same conditions as for keys, plus flow indicators in flow context and YAML 1.1 booleans unless yaml_12)",
      bound="all valid-UTF-8 strings of exactly %d bytes x yaml_12 x in_flow" % _N, assumes=[STD_STUBS, FMT_STUB, NUMLOOK, E2E])

for _n, _N, _tier, _exp in (("c12_wordlike_4", 4, "quick", 300), ("c12_wordlike_5", 5, "thorough", 900)):
    H(_n, "ser_quoting", ["C12"], tier=_tier, expect_s=_exp, timeout=max(1200, 4 * _exp), mem_gb=16, functions=["ser_quoting::is_plain_safe", "ser_quoting::is_plain_value_safe", "ser_quoting::is_ambiguous", "ser_quoting::is_ambiguous_value"],
      claim="word-like tokens (look-alikes of null / true / false / yes / no / on / off / .inf / .nan in EVERY letter case) are never emitted plain when the deserializer's own tables would read them as null, bool or float",
      bound="all %d-byte tokens over ASCII letters and ~ . + -, key and block-value position, both yaml_12" % _N, assumes=[STD_STUBS, FMT_STUB, NUMLOOK, E2E])

# --------------------------------------------------------------------------------------------
# C12 quoted-style emitters (src/ser.rs)
# --------------------------------------------------------------------------------------------
for _n, _N, _tier, _exp in (("c12_write_quoted_1", 1, "thorough", 3600), ("c12_write_quoted_2", 2, "thorough", 7200)):
    H(_n, "ser", ["C12"], tier=_tier, expect_s=_exp, timeout=2 * _exp, mem_gb=30, weight=4, functions=["ser::YamlSerializer::write_quoted"],
      claim="the double-quoted form of s, read by a reference reader of YAML double-quoted scalars (escape table \\\\ \\\" \\0 \\a \\b \\t \\n \\v \\f \\r \\e \\N \\L \\P \\xHH \\uHHHH; raw controls, line breaks and BOM not allowed), yields exactly s",
      bound="every valid-UTF-8 string of exactly %d bytes" % _N, assumes=[STD_STUBS, E2E])

# --------------------------------------------------------------------------------------------
# C12 / C20 block-scalar helpers (src/wrapping.rs)
# --------------------------------------------------------------------------------------------
H("c12_leading_spaces_4", "wrapping", ["C12"], expect_s=120, timeout=1200, functions=["wrapping::first_line_leading_spaces"],
  claim="number of leading spaces of the first NON-EMPTY line (a line of only spaces is non-empty: it fixes the indentation the reader auto-detects, so it must trigger the explicit indentation indicator)",
  bound="every valid-UTF-8 string of exactly 4 bytes", assumes=[STD_STUBS])
for _n, _N, _tier, _exp in (("c20_folded_block_3", 3, "thorough", 3000), ("c20_folded_block_4", 4, "thorough", 6000)):
    H(_n, "wrapping", ["C12"], tier=_tier, expect_s=_exp, timeout=max(1500, 2 * _exp), mem_gb=20, weight=2, functions=["wrapping::write_folded_block"],
      claim="the folded block body, read back with the folding rules of YAML `>` scalars (single break between two non-indented lines = one space; breaks next to blank / more-indented lines kept), is the original text: wrapping happens at single spaces only and never alters content",
      bound="every valid-UTF-8 text of exactly %d bytes without C0 controls other than \\n, not starting/ending with \\n; wrap column 1..3; indent 2" % _N,
      assumes=[STD_STUBS, E2E + " (here: to_string(FoldStr(s)) with min_fold_chars=0 and the same wrap column -> from_str::<String>, compared modulo one trailing line break)"])

# --------------------------------------------------------------------------------------------
# C19 robotics expression evaluator (src/robotics.rs, feature `robotics`)
# --------------------------------------------------------------------------------------------
ROB = ["robotics::parse_yaml12_float_angle_converting::<f64>", "robotics::Parser::expr / term / unary / primary / parse_ident_or_special", "robotics::Parser::enter / exit"]
ROB_ENV = ["operands are the constants pi / tau (no decimal literal on the path: libcore's dec2flt is outside); IEEE-754 operations on constants are folded by CBMC with round-to-nearest-even"]
for _n, _claim, _bound, _exp in (
    ("c19_precedence", "`[-]pi o1 tau o2 pi`: the value is bit-identical to IEEE-754 evaluation with * / binding tighter than + -, left-associative, unary minus first", "all 16 operator pairs x optional leading minus", 300),
    ("c19_parentheses", "`(pi o1 tau) o2 pi` and `pi o1 (tau o2 pi)`: parentheses override precedence", "all 16 operator pairs x both nestings", 300),
    ("c19_units", "`F(pi) o G(tau)`, F,G in {deg, rad}: deg() converts to radians exactly once, rad() not at all, explicit units override the tag", "4 function pairs x 4 operators x tags {none, !degrees, !radians}", 400),
    ("c19_units_mixed_with_bare", "`F(pi) o tau`: under !degrees a bare term next to a unitized one is rejected; otherwise evaluated without tag conversion", "2 functions x 4 operators x 3 tags", 300),
    ("c19_tag_only", "`pi o tau` under a tag: !degrees converts the whole value exactly once, !radians / no tag not at all", "4 operators x 3 tags", 200),
    ("c19_depth_guard", "enter() admits nesting depth < 256 only, never overflows, exit() restores", "every depth 0..=256", 60),
    ("c19_total_3", "totality: every input yields Ok or Err - no panic, index error, overflow; recursion bounded (unwinding assertions)", "all 3-byte strings over {p i t a u d e g r n f ( ) + - * / space . : _} x 3 tags", 600)):
    H(_n, "robotics", ["C19"], tier=("quick" if _n == "c19_depth_guard" else "thorough"), expect_s=(_exp if _n == "c19_depth_guard" else 3000), timeout=(600 if _n == "c19_depth_guard" else 7200),
      mem_gb=24, weight=3, features=["robotics"], functions=ROB, claim=_claim, bound=_bound, assumes=ROB_ENV)
H("c19_total_4", "robotics", ["C19"], tier="thorough", expect_s=2400, timeout=5400, mem_gb=30, weight=4, features=["robotics"], functions=ROB,
  claim="totality on 4-byte inputs", bound="all 4-byte strings over the same alphabet x 3 tags", assumes=ROB_ENV)

PROP_NOTES = {
    "C07": "C07 is decided at the level of the budget automaton: one inductive step from an arbitrary state satisfying the "
           "representation invariant covers histories of any length; that LiveEvents::next_impl is the only path from parser to "
           "consumer and calls observe once per raw event is read, not solved (the saphyr-parser scanner cannot be encoded).",
}


# Harnesses that were built but did not finish within their caps on the unchanged tree (see DESIGN
# 9.4): kept runnable with `--tier experimental`, never part of the quick / thorough commands.
EXPERIMENTAL = {
    "c06_wide_hex32_i64_pos", "c06_wide_hex32_i64_neg", "c06_wide_hex32_i128_pos", "c06_wide_hex32_i128_neg", "c06_wide_hex33_u128",
    "c06_base64_pad2", "c06_base64_pad1", "c06_base64_pad0",
    "c07_bb_keymap_within", "c07_bb_anchors_within", "c07_bb_abandoned_within", "c07_bb_abandoned_nodelimit", "c07_bb_abandoned_depthlimit",
    "c07_bb_twodocs_within", "c07_bb_anchors_anchorlimit", "c07_bb_anchors_aliaslimit", "c07_bb_twodocs_eventlimit", "c07_bb_twodocs_anchorlimit",
    "c12_write_quoted_1", "c12_write_quoted_2", "c20_folded_block_3", "c20_folded_block_4",
    "c17_coords_4", "c17_crop_line_6", "c17_crop_window_2", "c17_crop_window_3", "c17_crop_window_4", "c17_source_window_2", "c17_source_window_3", "c17_source_window_4",
    "c19_precedence", "c19_parentheses", "c19_units", "c19_units_mixed_with_bare", "c19_tag_only", "c19_total_3", "c19_total_4",
}


def harnesses_for(prop, tier):
    out = []
    for h in HARNESSES:
        if h["name"] in EXPERIMENTAL:
            if tier == "experimental" and prop in h["props"]:
                out.append(h)
            continue
        if tier == "experimental":
            continue
        if tier == "thorough-only":
            if prop in h["props"] and h["tier"] == "thorough":
                out.append(h)
            continue
        if prop in h["props"] and (h["tier"] == "quick" or tier == "thorough"):
            # C01 (totality) is served by the panic/overflow/bounds/unwinding obligations of harnesses
            # that primarily decide other properties; its quick tier takes the cheap ones only
            if prop == "C01" and tier == "quick" and h["props"][0] != "C01" and h.get("expect_s", 60) > 130:
                continue
            if tier == "quick" and h.get("quick_skip_for", None) and prop in h["quick_skip_for"]:
                continue
            out.append(h)
    return out


def by_name(name):
    for h in HARNESSES:
        if h["name"] == name:
            return h
    raise KeyError(name)


def _c19_double_rounding(tier):
    """z3 witness for f32 double rounding with angle_conversions, replayed through the real crate."""
    import json, os, subprocess, time
    t0 = time.time()
    res = {"name": "smt_c19_double_rounding", "obligations": 1, "discharged": 0, "functions": ["robotics::parse_yaml12_float_angle_converting::<f32> (FromF64 for f32: `v as f32`)", "parse_scalars::parse_yaml12_float::<f32> (str::parse::<f32>)"],
           "assumes": ["the SMT model (evaluate in binary64, then narrow) is used only while /repo's source still matches it textually; the witness is replayed natively through from_str_with_options with the option on and off"]}
    try:
        p = subprocess.run(["python3-vt", "/verif/smt/c19_double_rounding.py"], capture_output=True, text=True, timeout=900)
        out = json.loads(p.stdout.strip().splitlines()[-1])
    except Exception as e:  # noqa
        res.update({"verdict": "inconclusive:smt-error", "sample": {"error": str(e)}})
        return res
    res["sample"] = {"query": out.get("encoding"), "solver": out.get("solver"), "status": out.get("status"), "witness_literal": out.get("literal"), "solver_s": out.get("seconds")}
    if out["status"] == "unsat" or out["status"] == "model-not-applicable":
        res.update({"verdict": "held", "discharged": 1})
        return res
    if out["status"] != "sat":
        res["verdict"] = "inconclusive:smt-" + out["status"]
        return res
    env = dict(os.environ, CARGO_TARGET_DIR="/verif/.build/native-target", CARGO_NET_OFFLINE="true")
    rp = subprocess.run(["cargo", "run", "--offline", "--release", "--quiet", "--manifest-path", "/verif/native_replay/Cargo.toml", "--", "f32-angle", out["literal"]],
                        capture_output=True, text=True, env=env, timeout=1800)
    res["sample"]["native_replay"] = rp.stdout.strip()[-200:]
    if rp.returncode == 1 and "DIFFERENT" in rp.stdout:
        known = json.load(open("/verif/known_findings.json")).get("known", [])
        k = [x for x in known if x.get("id") == "F6-f32-double-rounding"]
        rpath = "/verif/replays/C19-smt_double_rounding.txt"
        open(rpath, "w").write("cargo run --release --manifest-path /verif/native_replay/Cargo.toml -- f32-angle %s\n%s\n" % (out["literal"], rp.stdout))
        res["replay"] = rpath
        if k:
            res.update({"verdict": "known-finding", "what": k[0]["what"]})
        else:
            res["verdict"] = "violated"
    elif rp.returncode == 0:
        res.update({"verdict": "held", "discharged": 1})   # witness does not reproduce on the real crate: no finding
    else:
        res["verdict"] = "inconclusive:native-replay-failed"
    res["wall_s"] = round(time.time() - t0, 1)
    return res


def extra_checks(prop, tier):
    if prop == "C19":
        return [_c19_double_rounding]
    return []

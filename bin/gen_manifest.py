#!/usr/bin/env python3
"""Regenerate /verif/MANIFEST.json from the registry (claimed properties = those with harnesses)."""
import json, sys
sys.path.insert(0, "/verif/bin")
import registry

LEVEL_TEXT = {
 "C01": "Totality at kernel level: for every input inside each harness' bound CBMC discharges all panic / overflow / index / slice / unwrap obligations of the real compiled functions, with unwinding assertions as the termination argument. Scanner, stack depth and whole-parser totality are outside (DESIGN §4.1).",
 "C04": "Event-buffer kernel that discards a duplicate's value: exact for every buffer of <= 8 events (DESIGN §4.4). Policy dispatch inside MapAccess is read, not solved.",
 "C06": "Differential bounded model checking of the scalar kernels against short reference readers: all short ASCII tokens fully symbolic, plus structured wide inputs at every integer-width boundary; base64 per padding shape; float special forms (DESIGN §4.6).",
 "C07": "One inductive step of the budget automaton from an arbitrary valid pre-state (all limits and counters free 64-bit words) per event kind, the per-document reset as a two-state equivalence, the ratio heuristic for all values, plus representation-independent scenario harnesses (DESIGN §4.7).",
 "C09": "One inductive step of the reader's character re-assembly: every chunking of the next bytes yields the one-shot decoding (DESIGN §4.9). Cross-entry-point agreement and borrowing need the parser and are outside.",
 "C10": "One inductive step of the reader adapter with symbolic fault position / error kind / cap / chunking: an error is never taken for end of input, the cap is exact (DESIGN §4.10).",
 "C12": "Plain-safety predicates vs. a reference reader of plain scalars on all short strings, each counterexample confirmed by the real to_string -> from_str round trip in the native replay (DESIGN §4.12).",
 "C16": "Coordinate conversion from parser marks for all mark values, and (row, col) -> byte offset kernels on all short texts (DESIGN §4.13).",
 "C17": "Sanitiser and cropping kernels on all short valid-UTF-8 texts x locations x radii: no control character survives, byte length preserved, marker rebased onto the same character (DESIGN §4.14).",
}
NOTE = "Trusted: rustc/Kani MIR->goto translation, CBMC 6.11 + CaDiCaL, std-lite stubs (validated natively by `bin/check --selftest`), the environment contracts and oracles written in each harness. Bounded: nothing is claimed outside the per-harness bounds listed in the evidence file; dev-profile semantics (overflow panics)."

LEVEL_TEXT["C19"] = "Partial: the recursion guard of the expression evaluator is decided for every depth (Kani), and the sub-claim 'plain float literals keep their value' is decided for f32 by an SMT (z3 FloatingPoint) witness that is replayed through the real crate (known finding F6). Precedence / unit / totality harnesses exist in the thorough tier only (they did not finish in 25 min) - see DESIGN 9.4."
NA = {
 "C13": "subject is the block emitter's layout state machine judged by re-parsing; the oracle is saphyr-parser (5 kLoC scanner over VecDeque/String), which cannot be encoded within reach (DESIGN §5)",
 "C14": "needs serializer + parser + thread-local anchor table in one run; the thread_local with destructor makes Kani 0.68 abort with an internal compiler error and symbolic-key hash-map operations do not terminate (DESIGN §5)",
 "C15": "call-history independence rests on thread-local state (Kani ICE) and panicking visitors (Kani models panic=abort) (DESIGN §5)",
 "C02": "event pump: three encodings tried, all out of memory (16-28 GB) or > 30 min - `Error` drop glue and SmallVec<[Ev;8]> (DESIGN 9.4); harnesses kept in harness/attic",
 "C08": "alias limits live inline in LiveEvents::next_impl (event pump): same measurements as C02 (DESIGN 9.4)",
 "C11": "per-document reset and recovery live in the event pump / ReadIter over the real parser: same measurements as C02; the budget side of recovery is covered under C07 (DESIGN 9.4)",
 "C03": "merge expansion runs inside function-local MapAccess types over Vec<Ev>/VecDeque/HashSet<KeyFingerprint> and the Error type that made the pump harnesses run out of memory (DESIGN 9.4)",
 "C05": "SeqAccess/MapAccess/EnumAccess are function-local types reachable only through YamlDeserializer + a visitor over ReplayEvents; earlier probe > 10 min for 5 events, pump measurements confirm (DESIGN 9.4)",
 "C20": "every wrapper path ends in write_end_of_scalar / TupleSer whose Option<String> fields make Kani 0.68 abort with an internal compiler error (codegen_get_discriminant PosOverflow); write_folded_block alone did not finish in 25 min for 3-byte texts (thorough tier only, under C12)",
 "C18": "only compiled with garde/validator; path recorder is a HashMap<Vec<String>,..> and the oracle is the validation crates' derive output (DESIGN §5)",
}

def main():
    claimed = sorted({p for h in registry.HARNESSES for p in h["props"]})
    extra_na = getattr(registry, "NOT_YET", {})
    checks = []
    for p in claimed:
        if p in extra_na:
            continue
        checks.append({
            "property_id": p,
            "quick_cmd": "bin/check %s --tier quick" % p,
            "thorough_cmd": "bin/check %s --tier thorough" % p,
            "evidence_file": "/verif/evidence/%s.json" % p,
            "replay_cmd_template": "bin/check --replay {path}",
            "engine": "kani-cbmc",
            "level_claimed": {"category": "other", "text": "Bounded model checking of the compiled crate (solver verdict over all inputs inside stated bounds). " + LEVEL_TEXT.get(p, ""), "design_ref": "DESIGN.md §4"},
            "level_note": NOTE,
            "technique": "bounded model checking of the real code (Kani 0.68 -> CBMC 6.11 -> CaDiCaL SAT), symbolic inputs/limits/chunkings/fault positions, counterexamples replayed natively",
        })
    allp = [json.loads(l)["id"] for l in open("/verif/properties.jsonl")]
    na = []
    for p in allp:
        if p in [c["property_id"] for c in checks]:
            continue
        reason = NA.get(p) or extra_na.get(p) or "no harness could be discharged within the cost gate yet (see DESIGN.md §8)"
        na.append({"property_id": p, "reason": reason})
    import subprocess
    hooks = subprocess.run(["git", "-C", "/repo", "log", "--format=%h %s"], capture_output=True, text=True).stdout.splitlines()
    hook_commits = [l.split()[0] for l in hooks if l.split(" ", 1)[1].startswith("verif hooks")]
    m = {
        "version": 1,
        "setup_cmd": "cd /verif && bin/setup",
        "hooks": {
            "guard": "cfg(kani)",
            "enable": "cargo kani --manifest-path /repo/Cargo.toml (Kani passes --cfg kani; nothing else sets it). Harness modules are mounted from /verif/harness/h_<module>.rs by `#[cfg(kani)] #[path=...] mod verif;` lines appended to the source files; env VERIF_WB selects the white-box harness parts.",
            "baseline_off_cmd": "cd /repo && (cargo nextest run --workspace --no-fail-fast --offline --test-threads 8 || cargo test --workspace --no-fail-fast --offline)",
            "source_commits": hook_commits,
            "add_only": True,
        },
        "engines": [{"name": "kani-cbmc", "path": "/verif/bin/check", "serves_properties": [c["property_id"] for c in checks],
                     "kind_free_text": "bounded model checking of the compiled crate: Kani 0.68 -> CBMC 6.11 -> CaDiCaL; harnesses in /verif/harness mounted inside the crate's modules; one auxiliary z3 query where stated"}],
        "checks": checks,
        "notes": "Every check is `bin/check <id> --tier quick|thorough`; exit 0 held / 1 VIOLATION (counterexample replayed natively) / 2 inconclusive. Known findings and fixed defects: /verif/known_findings.json. See DESIGN.md.",
        "not_applicable": na,
    }
    json.dump(m, open("/verif/MANIFEST.json", "w"), indent=1)
    print("claimed:", [c["property_id"] for c in checks], "n/a:", [n["property_id"] for n in na])

main()
